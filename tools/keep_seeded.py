#!/venv/bin/python
"""tools/keep_seeded.py <agent_out_dir> <i> <seed_id> [--checks C01,C09] [--tier quick]
Confirms a sub-agent's seeded change independently in a fresh scratch worktree of /repo HEAD:
  demo passes without the change, patch applies, the 111 baseline tests pass with it, demo fails with it;
then runs the given checks against it and stores patch.diff, demo.py, meta.json under /verif/seeded/<seed_id>/."""
import json
import os
import shutil
import subprocess
import sys
import argparse

ap = argparse.ArgumentParser()
ap.add_argument('out')
ap.add_argument('i')
ap.add_argument('seed_id')
ap.add_argument('--checks', default='')
ap.add_argument('--tier', default='quick')
a = ap.parse_args()

out = a.out
patch = os.path.join(out, f'm{a.i}.diff')
demo = os.path.join(out, f'demo{a.i}.py')
meta = json.load(open(os.path.join(out, f'meta{a.i}.json')))
wt = f'/tmp/mt/keep_{a.seed_id}_{os.getpid()}'
os.makedirs('/tmp/mt', exist_ok=True)


def sh(cmd, **k):
    return subprocess.run(cmd, shell=True, capture_output=True, text=True, **k)


head = sh('git -C /repo rev-parse --short HEAD').stdout.strip()
assert sh(f'git -C /repo worktree add -q --detach {wt} HEAD').returncode == 0
try:
    env = dict(os.environ, PYTHONPATH=f'{wt}/src')
    r0 = subprocess.run(['/venv/bin/python', demo], capture_output=True, text=True, env=env, cwd=wt)
    ap_ = sh(f'git -C {wt} apply {patch}')
    if ap_.returncode != 0:
        print('PATCH DOES NOT APPLY', ap_.stderr)
        sys.exit(2)
    t = subprocess.run(['/venv/bin/python', '-m', 'pytest', '-q', '-p', 'no:cacheprovider'], capture_output=True,
                       text=True, env=env, cwd=wt)
    tests_line = t.stdout.strip().splitlines()[-1] if t.stdout.strip() else ''
    r1 = subprocess.run(['/venv/bin/python', demo], capture_output=True, text=True, env=env, cwd=wt)
    ok = r0.returncode == 0 and t.returncode == 0 and r1.returncode != 0
    print(f'demo without: exit {r0.returncode}; tests with: {tests_line}; demo with: exit {r1.returncode}  => '
          f'{"CONFIRMED" if ok else "REJECTED"}')
    results = {}
    if ok and a.checks:
        os.makedirs(f'{wt}/_ev', exist_ok=True)
        for prop in a.checks.split(','):
            e2 = dict(os.environ, PEPTACULAR_SRC=f'{wt}/src', VERIF_EVIDENCE_DIR=f'{wt}/_ev',
                      VERIF_VIOLATIONS_DIR=f'{wt}/_viol')
            c = subprocess.run(['/verif/check', prop, '--tier', a.tier], capture_output=True, text=True, env=e2)
            viol = [l for l in c.stdout.splitlines() if l.startswith('VIOLATION')]
            first = [l for l in c.stdout.splitlines() if l.startswith('  {')][:1]
            results[prop] = {'exit': c.returncode, 'violations': len(viol), 'first_failure': first[0][:500] if first else None}
            print(f'  check {prop} ({a.tier}): exit {c.returncode}, {len(viol)} VIOLATION lines', first[0][:300] if first else '')
    if ok:
        dst = f'/verif/seeded/{a.seed_id}'
        os.makedirs(dst, exist_ok=True)
        shutil.copy(patch, f'{dst}/patch.diff')
        shutil.copy(demo, f'{dst}/demo.py')
        meta2 = {'breaks_property': meta.get('property'), 'files': meta.get('files'), 'summary': meta.get('summary'),
                 'needs_to_manifest': meta.get('needs'), 'origin': 'independent sub-agent given only the property text and a '
                 'scratch worktree', 'confirmed_at_repo_commit': head,
                 'what_was_run': [f'demo.py on scratch worktree of {head} without the change: exit {r0.returncode}',
                                  f'git apply patch.diff; pytest (111-test baseline): {tests_line}',
                                  f'demo.py with the change: exit {r1.returncode}'],
                 'detected_by': results}
        json.dump(meta2, open(f'{dst}/meta.json', 'w'), indent=1)
finally:
    sh(f'git -C /repo worktree remove --force {wt}')
    shutil.rmtree(wt, ignore_errors=True)
