#!/bin/bash
# keep.sh PROP [extra checks]  -> seeds PROP-o (m1) and PROP-p (m2)
P=$1; shift; EXTRA=$1
for i in 1 2; do l=$([ $i = 1 ] && echo ${L1:-o} || echo ${L2:-p})
  echo "== $P-$l"; /verif/tools/keep_seeded.py /tmp/sa_out/$P $i $P-$l --checks $P${EXTRA:+,$EXTRA} 2>&1 | tail -4 | cut -c1-600
done
git -C /repo worktree remove --force /tmp/sa/$P 2>/dev/null
