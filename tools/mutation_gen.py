#!/venv/bin/python
"""tools/mutation_gen.py <out.jsonl> [file ...]
Token-level first-order mutants of the anchored source files of /repo (not part of the deciding method: it measures
what the checks detect).  One JSON object per mutant: {id, file, line, col, op, old, new}.  Strings, comments and
docstrings are never touched.  Operators: relational/arith/boolean token swaps, small integer constants +1, True/False,
None-test inversion, and dropping defensive copies (deepcopy(x) / copy.copy(x) / list(x) / dict(x) / x.copy())."""
import io
import json
import os
import re
import sys
import tokenize

SRC = '/repo/src/peptacular'
FILES = ['mass_calc.py', 'fragmentation.py', 'digestion.py', 'spans.py', 'proforma/proforma_parser.py',
         'proforma/proforma_dataclasses.py', 'proforma/input_convert.py', 'chem/chem_calc.py', 'chem/chem_util.py',
         'isotope.py', 'score.py', 'sequence/mod_builder.py', 'sequence/combinatoric.py', 'sequence/sequence_funcs.py',
         'util.py', 'glycan.py', 'mods/mod_db.py']
SWAP = {'<': ['<='], '<=': ['<'], '>': ['>='], '>=': ['>'], '==': ['!='], '!=': ['=='], '+': ['-'], '-': ['+'],
        '*': ['/'], '+=': ['-='], '-=': ['+='], 'and': ['or'], 'or': ['and'], 'True': ['False'], 'False': ['True']}
SKIP_LINE = re.compile(r'^\s*(raise |warnings\.warn|import |from |@|def |class )|->|logging\.')


def mutants_of(rel):
    path = os.path.join(SRC, rel)
    text = open(path).read()
    lines = text.split('\n')
    toks = list(tokenize.generate_tokens(io.StringIO(text).readline))
    out = []
    depth_annot = 0
    for i, t in enumerate(toks):
        if t.type not in (tokenize.OP, tokenize.NAME, tokenize.NUMBER):
            continue
        line = lines[t.start[0] - 1]
        if SKIP_LINE.search(line):
            continue
        s = t.string
        prev = toks[i - 1] if i else None
        nxt = toks[i + 1] if i + 1 < len(toks) else None
        cands = []
        if s in SWAP and t.type in (tokenize.OP, tokenize.NAME):
            if s in ('+', '-') and prev is not None and (prev.type == tokenize.OP and prev.string not in (')', ']', '}')):
                continue    # unary sign
            if s == '*' and prev is not None and prev.type == tokenize.OP and prev.string in ('(', ','):
                continue    # *args
            if s in ('True', 'False') and ':' in line.split(s)[0][-12:]:
                pass
            cands = SWAP[s]
        elif t.type == tokenize.NUMBER and s in ('0', '1', '2'):
            cands = [str(int(s) + 1)]
        elif s == 'is' and nxt is not None and nxt.string == 'not':
            cands = ['is#drop-not']
        elif s == 'is' and nxt is not None and nxt.string == 'None':
            cands = ['is not']
        elif s == 'not' and prev is not None and prev.string != 'is' and nxt is not None and nxt.string != 'in':
            cands = ['#drop']
        elif s in ('deepcopy', 'list', 'dict', 'sorted') and nxt is not None and nxt.string == '(' and \
                (prev is None or prev.string not in ('def',)):
            cands = ['#identity-call']
        elif s == 'copy' and nxt is not None and nxt.string == '(' and prev is not None and prev.string == '.':
            cands = ['#identity-call']
        for new in cands:
            out.append({'file': rel, 'line': t.start[0], 'col': t.start[1], 'end': t.end[1], 'old': s, 'new': new,
                        'src': line.strip()[:160]})
    return out


def apply(text, m):
    """Returns the mutated text of the file, or None if the mutant cannot be built."""
    lines = text.split('\n')
    ln = lines[m['line'] - 1]
    a, b = m['col'], m['end']
    assert ln[a:b] == m['old'], (ln, m)
    new = m['new']
    if new == 'is#drop-not':
        rest = ln[b:]
        mm = re.match(r'\s+not\b', rest)
        if not mm:
            return None
        ln2 = ln[:b] + rest[mm.end():]
    elif new == '#drop':
        ln2 = ln[:a] + ln[b:].lstrip()
    elif new == '#identity-call':
        # f(x) -> (x) for a one-argument call on one line; x.copy() -> x
        if m['old'] == 'copy':
            if not ln[b:].startswith('()'):
                return None
            ln2 = ln[:a - 1] + ln[b + 2:]
        else:
            start = a
            pre = ln[:a]
            mm = re.search(r'(copy\.)$', pre)
            if mm:
                start = a - len(mm.group(1))
            # find matching paren
            depth = 0
            j = b
            end = None
            while j < len(ln):
                if ln[j] == '(':
                    depth += 1
                elif ln[j] == ')':
                    depth -= 1
                    if depth == 0:
                        end = j
                        break
                j += 1
            if end is None:
                return None
            inner = ln[b + 1:end]
            if not inner.strip() or ',' in inner and re.search(r',\s*(key|reverse)\s*=', inner) is None and \
                    depth == 0 and _top_level_comma(inner):
                return None
            if m['old'] == 'sorted':
                inner = inner.split(',')[0] if _top_level_comma(inner) else inner
                ln2 = ln[:start] + 'list(' + inner + ')' + ln[end + 1:]
            else:
                ln2 = ln[:start] + '(' + inner + ')' + ln[end + 1:]
    else:
        ln2 = ln[:a] + new + ln[b:]
    lines[m['line'] - 1] = ln2
    return '\n'.join(lines)


def _top_level_comma(s):
    d = 0
    for ch in s:
        if ch in '([{':
            d += 1
        elif ch in ')]}':
            d -= 1
        elif ch == ',' and d == 0:
            return True
    return False


if __name__ == '__main__':
    out = sys.argv[1]
    files = sys.argv[2:] or FILES
    n = 0
    with open(out, 'w') as f:
        for rel in files:
            text = open(os.path.join(SRC, rel)).read()
            for m in mutants_of(rel):
                mt = apply(text, m)
                if mt is None or mt == text:
                    continue
                try:
                    compile(mt, rel, 'exec')
                except SyntaxError:
                    continue
                m['id'] = f'M{n:05d}'
                n += 1
                f.write(json.dumps(m) + '\n')
    print(n, 'mutants')
