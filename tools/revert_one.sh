#!/bin/bash
# revert_one.sh <commit> <PROP>
wt=/tmp/mt/rv1_$1_$$; mkdir -p /tmp/mt
git -C /repo worktree add -q --detach $wt HEAD || exit 3
trap 'git -C /repo worktree remove --force $wt >/dev/null 2>&1; rm -rf $wt' EXIT
git -C $wt revert --no-commit $1 >/dev/null 2>&1 || { echo "revert conflict $1"; exit 3; }
mkdir -p $wt/_ev $wt/_viol
PEPTACULAR_SRC=$wt/src VERIF_EVIDENCE_DIR=$wt/_ev VERIF_VIOLATIONS_DIR=$wt/_viol /verif/check $2 --tier quick 2>&1 | grep -E "^(VIOLATION|  \{)" | head -2 | cut -c1-300
echo "revert $1 -> $2 exit=${PIPESTATUS[0]}"
