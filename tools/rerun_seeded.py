#!/venv/bin/python
"""tools/rerun_seeded.py [--tier quick] [ids...]
Re-runs every stored seeded change (seeded/<id>/patch.diff) against the checks that should see it, at the current /repo
HEAD, in scratch worktrees outside /repo and /verif (removed afterwards).  Updates seeded/<id>/meta.json
('detected_at_head') and writes seeded/SUMMARY.md.  /repo itself is never modified."""
import json
import os
import shutil
import subprocess
import sys

ROOT = '/verif'
EXTRA = {  # additional checks expected to notice a change that was written against another property
    'C02-a': ['C03'], 'C02-b': ['C12'], 'C04-a': ['C08'], 'C05-a': ['C08'], 'C07-b': ['C11'], 'C08-a': [], 'C08-b': [],
    'C09-b': [], 'C10-b': [], 'C12-a': ['C02'], 'C20-b': ['C08'], 'C11-a': [], 'C05-c': ['C04', 'C02'], 'C11-c': ['C08'],
    'C15-d': ['C08'], 'C16-d': ['C08'], 'C08-c': ['C20'], 'C07-d': ['C11'], 'C18-d': ['C12'], 'C02-c': ['C05'], 'C02-d': ['C15'],
    'C02-f': ['C08'], 'C03-f': ['C02'], 'C04-f': ['C11'], 'C05-e': ['C04'], 'C05-f': ['C02'],
    'C14-f': ['C02'], 'C16-f': ['C20'], 'C18-e': ['C08'], 'C19-e': ['C11'],
    'C02-g': ['C12'], 'C07-g': ['C08'], 'C07-h': ['C08'], 'C18-h': ['C03'], 'C13-g': ['C20'], 'C12-h': ['C05'], 'C19-g': ['C08'],
    'C03-h': ['C02'], 'C12-g': ['C03'],
    'C02-i': ['C03'], 'C01-i': ['C20'], 'C03-j': ['C02'], 'C04-j': ['C12'], 'C05-i': ['C02'], 'C05-j': ['C04'], 'C12-i': ['C11'],
    'C15-j': ['C08'], 'C18-j': ['C01'],
    'C02-k': ['C10'], 'C02-l': ['C08'], 'C08-l': ['C18'], 'C04-k': ['C05'], 'C04-l': ['C05'], 'C18-l': ['C11'], 'C05-k': ['C11'],
    'C05-l': ['C02'], 'C07-k': ['C11'], 'C07-l': ['C01'], 'C10-k': ['C15'], 'C12-k': ['C08'],
    'C16-m': ['C11'], 'C04-n': ['C05'], 'C20-m': ['C08'], 'C10-n': ['C02'], 'C02-n': ['C10'], 'C03-n': ['C02'], 'C05-m': ['C04'],
    'C07-m': ['C16'], 'C07-n': ['C11'], 'C09-m': ['C12'], 'C09-n': ['C12'], 'C12-m': ['C04'], 'C14-n': ['C08'],
}


def sh(cmd, **k):
    return subprocess.run(cmd, shell=True, capture_output=True, text=True, **k)


def main():
    tier = 'quick'
    args = sys.argv[1:]
    if '--tier' in args:
        i = args.index('--tier')
        tier = args[i + 1]
        del args[i:i + 2]
    if args == ['--summary-only']:
        write_summary(sh('git -C /repo rev-parse --short HEAD').stdout.strip(), tier)
        return
    ids = args or sorted(d for d in os.listdir(f'{ROOT}/seeded') if os.path.isdir(f'{ROOT}/seeded/{d}') and not d.startswith('_')
                         and d != 'mutation')
    head = sh('git -C /repo rev-parse --short HEAD').stdout.strip()
    rows = []
    os.makedirs('/tmp/mt', exist_ok=True)
    for sid in ids:
        d = f'{ROOT}/seeded/{sid}'
        meta = json.load(open(f'{d}/meta.json'))
        prop = meta['breaks_property']
        checks = [prop] + EXTRA.get(sid[:5], [])
        wt = f'/tmp/mt/rr_{sid}_{os.getpid()}'
        assert sh(f'git -C /repo worktree add -q --detach {wt} HEAD').returncode == 0
        try:
            ap = sh(f'git -C {wt} apply {d}/patch.diff')
            res = {'repo_head': head, 'tier': tier}
            if ap.returncode != 0:
                res['applies'] = False
                res['note'] = 'patch no longer applies at this HEAD (a later fix: commit rewrote the same lines)'
            else:
                res['applies'] = True
                env = dict(os.environ, PYTHONPATH=f'{wt}/src')
                dm = subprocess.run(['/venv/bin/python', f'{d}/demo.py'], capture_output=True, text=True, env=env, cwd=wt)
                res['demo_exit_with_change'] = dm.returncode
                res['checks'] = {}
                for c in checks:
                    e2 = dict(os.environ, PEPTACULAR_SRC=f'{wt}/src', VERIF_EVIDENCE_DIR=f'{wt}/_ev',
                              VERIF_VIOLATIONS_DIR=f'{wt}/_viol')
                    os.makedirs(f'{wt}/_ev', exist_ok=True)
                    r = subprocess.run([f'{ROOT}/check', c, '--tier', tier], capture_output=True, text=True, env=e2)
                    viol = [l for l in r.stdout.splitlines() if l.startswith('VIOLATION')]
                    first = [l.strip() for l in r.stdout.splitlines() if l.startswith('  {')][:1]
                    res['checks'][c] = {'exit': r.returncode, 'violation_lines': len(viol),
                                        'first_failure': first[0][:300] if first else None}
            meta['detected_at_head'] = res
            json.dump(meta, open(f'{d}/meta.json', 'w'), indent=1)
            rows.append((sid, prop, meta, res))
            print(sid, {c: v['exit'] for c, v in res.get('checks', {}).items()} if res['applies'] else 'does not apply')
        finally:
            sh(f'git -C /repo worktree remove --force {wt}')
            shutil.rmtree(wt, ignore_errors=True)
    write_summary(head, tier)


def write_summary(head, tier):
    """SUMMARY.md from the 'detected_at_head' records of every seeded/<id>/meta.json (whenever they were made)"""
    ids = sorted(d for d in os.listdir(f'{ROOT}/seeded') if os.path.isdir(f'{ROOT}/seeded/{d}') and not d.startswith('_')
                 and d != 'mutation')
    with open(f'{ROOT}/seeded/SUMMARY.md', 'w') as f:
        f.write(f'# Seeded changes vs checks ({tier} tier; repo HEAD of each run in the last column)\n\n')
        f.write('| seeded change | breaks | needs to manifest | detected by (exit 1 = VIOLATION) | at |\n|---|---|---|---|---|\n')
        for sid in ids:
            meta = json.load(open(f'{ROOT}/seeded/{sid}/meta.json'))
            res = meta.get('detected_at_head')
            prop = meta['breaks_property']
            if res and res.get('applies'):
                det = ', '.join(f"{c}: exit {v['exit']}" for c, v in res['checks'].items())
                at = res.get('repo_head')
            else:
                old = meta.get('detected_by') or {}
                det = ('patch no longer applies at HEAD; ' if res else '') + 'when confirmed: ' + \
                    ', '.join(f"{c}: exit {v['exit']}" for c, v in old.items())
                at = meta.get('confirmed_at_repo_commit')
            needs = (meta.get('needs_to_manifest') or '').replace('\n', ' ').replace('|', '/')[:160]
            f.write(f'| {sid} | {prop} | {needs} | {det} | {at} |\n')


if __name__ == '__main__':
    main()
