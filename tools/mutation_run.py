#!/venv/bin/python
"""tools/mutation_run.py tests  <mutants.jsonl> <results.jsonl> [--jobs 14]
   tools/mutation_run.py checks <mutants.jsonl> <tests-results.jsonl> <results.jsonl> [--stride k] [--offset o]

Mutation analysis of the checks (a measurement of detection, not part of the deciding method).
Phase `tests`: every mutant is built as a copy of /repo/src with one file replaced (under /tmp/mu, removed
afterwards) and the 111 baseline tests are run against it; survivors are the mutants the test-suite cannot see.
Phase `checks`: for every test-surviving mutant (optionally a deterministic stride of them) the quick checks of the
properties anchored in the mutated file are run with VERIF_FAIL_FAST=1 (stop at the first unexplained failure) until one
reports a VIOLATION.  /repo itself is never modified; evidence and violation files go to the scratch directory."""
import concurrent.futures as cf
import json
import os
import shutil
import subprocess
import sys
import time

sys.path.insert(0, os.path.dirname(os.path.abspath(__file__)))
import mutation_gen  # noqa: E402

ROOT = '/verif'
SCR = '/tmp/mu'
# quick checks ordered by wall time; anchors: file -> properties (properties.jsonl), then every other check
SPEED = ['C19', 'C10', 'C15', 'C17', 'C20', 'C16', 'C13', 'C02', 'C18', 'C14', 'C11', 'C01', 'C06', 'C08', 'C05', 'C12',
         'C03', 'C04', 'C07', 'C09']


def anchors():
    m = {}
    for l in open(f'{ROOT}/properties.jsonl'):
        d = json.loads(l)
        for f in d['anchors']['files']:
            m.setdefault(f.replace('src/peptacular/', ''), []).append(d['id'])
    return m


def build(m, tag):
    d = f'{SCR}/{tag}'
    shutil.rmtree(d, ignore_errors=True)
    os.makedirs(d)
    subprocess.run(['cp', '-r', '/repo/src', f'{d}/src'], check=True)   # real files: the harness checks realpath
    for x in ('tests', 'pyproject.toml', 'setup.py', 'README.md'):
        if os.path.exists(f'/repo/{x}'):
            os.symlink(f'/repo/{x}', f'{d}/{x}')
    path = f'{d}/src/peptacular/{m["file"]}'
    text = open(f'/repo/src/peptacular/{m["file"]}').read()
    mt = mutation_gen.apply(text, m)
    os.remove(path)
    open(path, 'w').write(mt)
    return d


def run_tests(m):
    d = build(m, 't_' + m['id'])
    try:
        env = dict(os.environ, PYTHONPATH=f'{d}/src', PYTHONDONTWRITEBYTECODE='1', PYTHONWARNINGS='ignore')
        t0 = time.time()
        try:
            r = subprocess.run(['/venv/bin/python', '-m', 'pytest', '-q', '-x', '-p', 'no:cacheprovider', '--timeout=120'],
                               capture_output=True, text=True, env=env, cwd=d, timeout=400)
            ok = r.returncode == 0
            last = (r.stdout.strip().splitlines() or ['?'])[-1][:120]
        except subprocess.TimeoutExpired:
            ok, last = False, 'timeout'
        return dict(m, tests_pass=ok, tests=last, wall=round(time.time() - t0, 1))
    finally:
        shutil.rmtree(d, ignore_errors=True)


def run_checks(m, props):
    d = build(m, 'c_' + m['id'])
    try:
        os.makedirs(f'{d}/_ev')
        env = dict(os.environ, PEPTACULAR_SRC=f'{d}/src', VERIF_EVIDENCE_DIR=f'{d}/_ev', VERIF_VIOLATIONS_DIR=f'{d}/_viol',
                   VERIF_FAIL_FAST='1')
        res = {}
        killed_by = None
        first = None
        for c in props:
            t0 = time.time()
            try:
                r = subprocess.run([f'{ROOT}/check', c, '--tier', 'quick'], capture_output=True, text=True, env=env,
                                   timeout=1500)
                code = r.returncode
                out = r.stdout
            except subprocess.TimeoutExpired:
                code, out = 'timeout', ''
            res[c] = [code, round(time.time() - t0, 1)]
            if code == 1 and 'VIOLATION property=' in out:
                killed_by = c
                fl = [l.strip() for l in out.splitlines() if l.startswith('  {')][:1]
                first = fl[0][:300] if fl else None
                break
            if code not in (0, 1):
                killed_by = f'{c}:harness-{code}'       # a mutant that hangs / crashes the harness is also noticed
                fl = [l.strip() for l in out.splitlines() if l.startswith('HARNESS')][:1]
                first = fl[0][:300] if fl else None
                break
        return dict(m, checks=res, killed_by=killed_by, first_failure=first)
    finally:
        shutil.rmtree(d, ignore_errors=True)


def main():
    mode = sys.argv[1]
    args = sys.argv[2:]
    opt = {}
    for k in ('--jobs', '--stride', '--offset'):
        if k in args:
            i = args.index(k)
            opt[k] = int(args[i + 1])
            del args[i:i + 2]
    os.makedirs(SCR, exist_ok=True)
    if mode == 'tests':
        ms = [json.loads(l) for l in open(args[0])]
        done = set()
        if os.path.exists(args[1]):
            done = {json.loads(l)['id'] for l in open(args[1])}
        ms = [m for m in ms if m['id'] not in done]
        with open(args[1], 'a') as f, cf.ThreadPoolExecutor(opt.get('--jobs', 14)) as ex:
            for i, r in enumerate(ex.map(run_tests, ms)):
                f.write(json.dumps(r) + '\n')
                f.flush()
                if i % 50 == 0:
                    print(i, r['id'], r['tests_pass'], r['tests'], flush=True)
    else:
        tests = [json.loads(l) for l in open(args[1])]
        surv = [m for m in tests if m['tests_pass']]
        surv = surv[opt.get('--offset', 0)::opt.get('--stride', 1)]
        done = set()
        if os.path.exists(args[2]):
            done = {json.loads(l)['id'] for l in open(args[2])}
        anc = anchors()
        with open(args[2], 'a') as f:
            for m in surv:
                if m['id'] in done:
                    continue
                mine = anc.get(m['file'], [])
                props = [c for c in SPEED if c in mine] + [c for c in SPEED if c not in mine]
                if os.environ.get('ANCHORED_ONLY'):
                    props = [c for c in SPEED if c in mine]
                r = run_checks(m, props)
                f.write(json.dumps(r) + '\n')
                f.flush()
                print(r['id'], r['file'], r['line'], r['old'], '->', r['new'], 'killed_by', r['killed_by'],
                      sum(v[1] for v in r['checks'].values()), 's', flush=True)


if __name__ == '__main__':
    main()
