#!/bin/bash
# tools/try_mutant.sh <patch.diff> <tier> <PROP> [<PROP>...]
# Applies a seeded change in a scratch worktree OUTSIDE /repo and /verif, runs the baseline tests there and the given
# checks against it (PEPTACULAR_SRC override, evidence/violations redirected to the scratch dir), removes the worktree.
set -u
patch=$(readlink -f "$1"); tier=$2; shift 2
id=$(basename "$(dirname "$patch")")_$(basename "$patch" .diff)_$$
wt=/tmp/mt/$id
mkdir -p /tmp/mt
git -C /repo worktree add -q --detach "$wt" HEAD || exit 3
trap 'git -C /repo worktree remove --force "$wt" >/dev/null 2>&1; rm -rf "$wt"' EXIT
if ! git -C "$wt" apply "$patch"; then echo "PATCH-DOES-NOT-APPLY $patch"; exit 3; fi
if [ "${SKIP_TESTS:-0}" != 1 ]; then
  (cd "$wt" && PYTHONPATH="$wt/src" /venv/bin/python -m pytest -q -p no:cacheprovider -x 2>&1 | tail -1)
fi
for demo in "$(dirname "$patch")"/demo*.py; do :; done
mkdir -p "$wt/_ev" "$wt/_viol"
for prop in "$@"; do
  PEPTACULAR_SRC="$wt/src" VERIF_EVIDENCE_DIR="$wt/_ev" VERIF_VIOLATIONS_DIR="$wt/_viol" \
    /verif/check "$prop" --tier "$tier" 2>&1 | grep -E "^(VIOLATION|KNOWN-FINDING|HARNESS|C[0-9]+ tier)|^  \{" | cut -c1-400 | head -8
  echo "  -> $prop exit=${PIPESTATUS[0]}"
done
