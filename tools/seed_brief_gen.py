# tools/seed_brief_gen.py <PROP>...  — writes the sub-agent brief /tmp/r8/prompt_<PROP>.txt (property text, anchors, mechanisms already used by
# earlier seeded changes; nothing about the checks) and creates the scratch worktree /tmp/sa/<PROP> and output dir /tmp/sa_out/<PROP>
import json, os, glob, subprocess, sys
props = {json.loads(l)['id']: json.loads(l) for l in open('/verif/properties.jsonl')}
todo = sys.argv[1:]
for pid in todo:
    p = props[pid]
    used = []
    for d in sorted(glob.glob(f'/verif/seeded/{pid}-*')) + sorted(glob.glob(f'/verif/seeded/_rejected/{pid}-*')):
        try:
            m = json.load(open(d + '/meta.json'))
        except Exception:
            continue
        used.append('- ' + (m.get('summary') or '')[:260].replace('\n', ' '))
    wt = f'/tmp/sa/{pid}'
    out = f'/tmp/sa_out/{pid}'
    os.makedirs(out, exist_ok=True)
    if not os.path.isdir(wt):
        subprocess.run(f'git -C /repo worktree add -q --detach {wt} HEAD', shell=True, check=True)
    a = p['anchors']
    txt = f"""You are helping to evaluate a verification harness for the Python library pgarrett-scripps/peptacular
(a pure-Python ProForma 2.0 peptide notation parser/serializer with mass, composition, fragmentation and
digestion calculators).  Your job is to play the role of a developer who introduces a subtle, realistic bug.

Your private scratch git worktree of the library is {wt} (source under {wt}/src/peptacular, tests under
{wt}/tests).  Work ONLY inside {wt} and write your deliverables to {out}.  Do not read or touch /repo, /verif or any
other directory under /tmp/sa or /tmp/sa_out.  Run Python as:  cd {wt} && PYTHONPATH={wt}/src /venv/bin/python ...
Run the test-suite as:  cd {wt} && PYTHONPATH={wt}/src /venv/bin/python -m pytest -q -p no:cacheprovider
(111 tests, ~10 s; all pass on the unchanged tree).  There is no network.

THE PROPERTY (id {pid}): {p['title']}

Statement: {p['statement']}

Holds: {p['quantifier']['text']}

Code it is anchored in: {', '.join(a['files'])}
Mechanisms: {'; '.join(m['name'] + ' (' + m['where'] + ')' for m in a.get('mechanism', []))}
Observable at: {', '.join(a.get('observe_at', []))}

TASK: produce TWO independent changes (call them 1 and 2) to the library source, each of which
 (a) BREAKS the property above for some input/configuration/call history that lies INSIDE the quantifier
     ("Holds:" text above) - not for inputs the property does not speak about;
 (b) still imports/compiles, and the full existing test-suite (111 tests incl. doctests) still PASSES with it;
 (c) looks like a plausible developer change (a refactoring, an optimisation, a cache, a "simplification", an
     off-by-one, a shared mutable default, an early return, a changed regular expression, a wrong table entry ...),
     not like sabotage, and is small (typically 1-15 changed lines);
 (d) needs something SPECIFIC to manifest: an unusual input shape, a particular combination of two or three features
     or options, a multi-step sequence of calls on one object or in one process, or two cooperating sites that each
     look fine alone.  Ordinary everyday use (the README examples, plain unmodified peptides, default options) must
     keep working, so that the bug would survive casual testing.
The two changes must use different mechanisms and touch different behaviour.
PREFERRED FLAVOURS for this round (earlier rounds have exhausted the obvious single-input bugs): change 1 should, if at all
possible, manifest ONLY for inputs towards the upper end of the ranges named in the "Holds" text (longer sequences, more
positions, several simultaneous features, larger counts / sizes / charges, the less common option values) while short and
simple inputs stay correct; change 2 should, if at all possible, need a SEQUENCE of calls (on one object, or in one
process: a cache, a memo, a shared default, a generator consumed twice, state left behind by an earlier call with other
options) or TWO cooperating code sites that each look fine alone.  Each change is made against the
UNCHANGED tree (not stacked): make change 1, save its diff, `git -C {wt} checkout -- .`, make change 2, save, revert.

Mechanisms ALREADY USED by earlier participants for this property - do NOT repeat these ideas, find different ones
(other code paths, other feature combinations, other functions among the observables listed above):
{chr(10).join(used) if used else '- (none)'}

DELIVERABLES, for i in 1, 2, written to {out}:
  {out}/m<i>.diff     - output of `git -C {wt} diff` for change i (must apply with `git apply` to the unchanged tree)
  {out}/demo<i>.py    - a small standalone program using only the public peptacular API that exits 0 on the UNCHANGED
                        tree and exits non-zero (assert failure) with change i applied.  It must show a violation of the
                        property as stated (compare with hand-computed expected values or with an equivalent call), and
                        must not depend on timing or randomness.
  {out}/meta<i>.json  - {{"property": "{pid}", "files": [changed files], "summary": "what the change does and why it looks
                        innocent", "needs": "exactly what is needed for the bug to manifest, and what keeps working"}}
Before finishing, VERIFY for each change yourself: demo passes on the unchanged tree; with the change applied the
test-suite passes (all 111) and the demo fails.  Leave the worktree clean (`git -C {wt} checkout -- .`) at the end.
In your final answer give a 3-line description per change.  If you notice that the UNCHANGED library already
violates the property for some input, mention that input in your final answer too (one line each).
"""
    open(f'/tmp/r8/prompt_{pid}.txt', 'w').write(txt)
    print(pid, len(txt), len(used))
