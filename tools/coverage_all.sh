#!/bin/bash
# tools/coverage_all.sh [checks...]   — branch coverage of /repo/src/peptacular under the quick tiers (one-off
# measurement backing the small-scope argument of DESIGN section 1; writes /verif/coverage_quick.txt)
cd /verif || exit 3
rm -rf /tmp/verif_cov; mkdir -p /tmp/verif_cov/data /tmp/verif_cov/ev
checks=${@:-$(for i in $(seq 1 20); do printf "C%02d " $i; done)}
for c in $checks; do
  PYTHONHASHSEED=0 VERIF_EVIDENCE_DIR=/tmp/verif_cov/ev VERIF_VIOLATIONS_DIR=/tmp/verif_cov/viol VERIF_CASE_TIMEOUT=300 \
    /venv/bin/python -m coverage run --rcfile=tools/covrc -m mc.main $c --tier quick 2>&1 | tail -1 | cut -c1-100
done
/venv/bin/python -m coverage combine --rcfile=tools/covrc >/dev/null 2>&1
/venv/bin/python -m coverage report --rcfile=tools/covrc > /verif/coverage_quick.txt 2>&1
tail -3 /verif/coverage_quick.txt
rm -rf /tmp/verif_cov
