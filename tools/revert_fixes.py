#!/venv/bin/python
"""tools/revert_fixes.py [--tier quick]
For every `fix:` commit recorded as fixed in known_findings.json: revert it in a scratch worktree of /repo HEAD
(outside /repo and /verif, removed afterwards), run the check of the property it repaired and expect a VIOLATION.
Writes seeded/REVERTS.md.  Shows that a fixed entry suppresses nothing: the violation is reported again if it returns."""
import json
import os
import shutil
import subprocess
import sys

ROOT = '/verif'


def sh(cmd, **k):
    return subprocess.run(cmd, shell=True, capture_output=True, text=True, **k)


def main():
    tier = 'quick'
    kf = json.load(open(f'{ROOT}/known_findings.json'))['findings']
    fixed = [e for e in kf if e['status'] == 'fixed']
    rows = []
    os.makedirs('/tmp/mt', exist_ok=True)
    seen = set()
    for e in fixed:
        key = (e['commit'], e['property'])
        if key in seen:
            continue
        seen.add(key)
        wt = f'/tmp/mt/rv_{e["id"]}_{os.getpid()}'
        assert sh(f'git -C /repo worktree add -q --detach {wt} HEAD').returncode == 0
        try:
            rv = sh(f'git -C {wt} revert --no-commit {e["commit"]}')
            if rv.returncode != 0:
                sh(f'git -C {wt} revert --abort')
                rows.append((e, 'revert conflicts with later commits', None, None))
                print(e['id'], 'conflict')
                continue
            env = dict(os.environ, PYTHONPATH=f'{wt}/src')
            t = subprocess.run(['/venv/bin/python', '-m', 'pytest', '-q', '-p', 'no:cacheprovider', '-x'],
                               capture_output=True, text=True, env=env, cwd=wt)
            tests = t.stdout.strip().splitlines()[-1] if t.stdout.strip() else '?'
            e2 = dict(os.environ, PEPTACULAR_SRC=f'{wt}/src', VERIF_EVIDENCE_DIR=f'{wt}/_ev',
                      VERIF_VIOLATIONS_DIR=f'{wt}/_viol')
            os.makedirs(f'{wt}/_ev', exist_ok=True)
            r = subprocess.run([f'{ROOT}/check', e['property'], '--tier', tier], capture_output=True, text=True, env=e2)
            first = [l.strip() for l in r.stdout.splitlines() if l.startswith('  {')][:1]
            rows.append((e, tests, r.returncode, first[0][:260] if first else ''))
            print(e['id'], e['property'], 'exit', r.returncode, tests)
        finally:
            sh(f'git -C /repo worktree remove --force {wt}')
            shutil.rmtree(wt, ignore_errors=True)
    head = sh('git -C /repo rev-parse --short HEAD').stdout.strip()
    with open(f'{ROOT}/seeded/REVERTS.md', 'w') as f:
        f.write(f'# Reverting each fix: commit at /repo HEAD {head} ({tier} tier of the repaired property)\n\n')
        f.write('| finding | property | commit | baseline tests with the revert | check exit | first failure |\n|---|---|---|---|---|---|\n')
        for e, tests, code, first in rows:
            f.write(f"| {e['id']} | {e['property']} | {e['commit']} | {tests} | {code} | {(first or '').replace('|', '/')} |\n")


if __name__ == '__main__':
    main()
