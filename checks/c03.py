"""C03 — mass calculator and elemental-composition calculator always agree (differential oracle between two library
paths, anchored by the independent reference at the low levels)."""
import re

from mc import lib, pmodel, space, catalogue, refmass, refdata, obo
from checks import c01, c02

PROPERTY = 'C03'
RULE = ('deviation-bounded product space over the C02 shape axes plus global isotope labels, and option axes ion_type '
        '(16 fragment types, n), charge -3..4 and 10, 12, -11 (argument or string), isotope 1-3, average mode, adducts (argument or string), '
        'use_isotope_on_mods; full products over every Unimod entry and every self-consistent PSI-MOD entry x {mono, avg} '
        'on a one-residue peptide; non-trivial = at least one axis set')
ASSUMPTIONS = ['agreement = |mass - (chem_mass(comp) + delta)| <= 1e-4 (mono) / 1e-3*max(1,#tabulated mod instances) + 5ppm '
               'of the summed modification mass (average); both paths raising a ValueError subclass is agreement',
               'independent anchor: states with <=1 deviation are also compared with mc/refmass.py',
               'charge range [-3,4] (proton vs H-e differs by 1.5e-8 per charge, inside the tolerance); charges 10, 12, '
               '-11, -10 (two-digit carrier counts) in monoisotopic mode only']

T = catalogue
TEXTS_L1 = c02.MASS_TEXTS_L1 + [t for t in T.NAMED if not c02._c02_named(t)] + T.NO_MASS
TEXTS_L2 = ['Oxidation', '15.995', 'UNIMOD:35', 'Label:13C(6)', 'Formula:[13C2][12C-2]H2N', 'Glycan:HexNAc2Hex3',
            '-18.0106', 'Oxidation|INFO:note', 'M:00719', 'X:DSS', 'Obs:+15.99', 'U:+15.995', '15.995#g1', '#g1']
TEXTS_L3 = ['Oxidation', '1.5', 'Formula:C2H2O', 'U:+15.995', 'M:00719']
ISOTOPES = [['13C'], ['15N'], ['18O'], ['D'], ['T'], ['13C', '15N']]
IONS = refmass.ALL_ION_TYPES + ['n']


def modlists(level):
    if level <= 1:
        out = []
        for t in TEXTS_L1:
            out += [[[t, 1]], [[t, 2]], [[t, 3]]]
        out += [[['Oxidation', 1], ['15.995', 1]], [['Acetyl', 2], ['Phospho', 1]], [['1.5', 1], ['-2', 2]]]
        return out
    if level == 2:
        return [[[t, m]] for t in TEXTS_L2 for m in (1, 2)]
    if level == 3:
        return [[[t, 1]] for t in TEXTS_L3] + [[['Oxidation', 2]]]
    return [[['Oxidation', 1]], [['1.5', 1]]]


SHAPE_AXES = ['labile', 'static', 'isotope', 'unknown', 'nterm', 'r0', 'rmid', 'rlast', 'iv', 'cterm']
OPT_AXES = ['charge_arg', 'cstr', 'adducts_arg', 'ion', 'isotope_n', 'avg', 'iso_on_mods']
AXES = SHAPE_AXES + OPT_AXES


def values_at(axis, level, n):
    if axis in ('labile', 'unknown', 'nterm', 'cterm', 'r0', 'rmid', 'rlast'):
        return modlists(level)
    if axis == 'static':
        tg = c01.TARGETS if level <= 2 else c01.TARGETS[:3]
        mls = modlists(2) if level <= 2 else modlists(3)
        out = [[{'mods': ml, 'targets': t}] for ml in mls for t in tg if ml[0][1] == 1]
        if level <= 2:
            out.append([{'mods': [['Oxidation', 1]], 'targets': ['M']}, {'mods': [['1.5', 1]], 'targets': ['K']}])
            out.append([{'mods': [['Oxidation', 1], ['Methyl', 1]], 'targets': ['K', 'N-Term']}])
            # a rule whose modification carries a multiplier (composition-bearing and plain shift)
            out.append([{'mods': [['Acetyl', 2]], 'targets': ['K']}])
            out.append([{'mods': [['1.5', 3]], 'targets': ['K', 'N-Term']}])
            out.append([{'mods': [['Formula:C2H2O', 2], ['10', 1]], 'targets': ['M', 'K']}])
        return out
    if axis == 'isotope':
        return ISOTOPES if level <= 2 else ISOTOPES[:2]
    if axis == 'iv':
        mls = modlists(2) if level <= 2 else modlists(3)[:3]
        spans = [(0, n)] if n == 1 else [(0, 2), (1, n)]
        return [[[a, b, amb, ml]] for (a, b) in spans for amb in (False, True) for ml in mls]
    if axis == 'charge_arg':
        return [-3, -2, -1, 0, 1, 2, 3, 4, 10, 12, -11] if level <= 2 else [-1, 2, 4]   # two-digit carrier counts
    if axis == 'cstr':
        out = [[2, None], [-1, None], [4, None], [-3, None], [1, None]] + ([[12, None], [-10, None]] if level <= 2 else [])
        ads = c02.adduct_values(2) if level <= 2 else c02.adduct_values(3)
        zs = [1, 2, 3, -1]
        return out + [[zs[i % 4], a] for i, a in enumerate(ads)]
    if axis == 'adducts_arg':
        return c02.adduct_values(level if level > 1 else 2) + (c02.adduct_values(1)[::4] if level <= 1 else [])
    if axis == 'ion':
        return IONS if level <= 2 else ['b', 'y', 'cy', 'ax', 'i', 'n']
    if axis == 'isotope_n':
        return [1, 2, 3]
    if axis in ('avg', 'iso_on_mods'):
        return [True]
    raise KeyError(axis)


def bases(tier):
    return ['PEK', 'SMKPEMK']


def bound(tier):
    return 4 if tier == 'thorough' else 3


def describe(tier):
    return {'bases': bases(tier), 'deviation_bound': bound(tier), 'axes': AXES, 'ion_types': IONS,
            'level1_texts': len(TEXTS_L1)}


def shards(tier):
    out = []
    for seq in bases(tier):
        for sh in space.dev_shards(AXES, bound(tier)):
            if 'iso_on_mods' in sh['axes'] and 'isotope' not in sh['axes']:
                continue
            sh['seq'] = seq
            sh['kind'] = 'dev'
            out.append(sh)
    # a 12-residue base (two-digit positions; every residue letter once more) at deviation <= 1 / 2
    for sh in space.dev_shards(AXES, 2 if tier == 'thorough' else 1):
        sh['seq'] = 'SMKPEMKACDFW'
        sh['kind'] = 'dev'
        out.append(sh)
    out += [{'kind': 'unimod', 'part': i} for i in range(8)]
    out += [{'kind': 'psimod', 'part': i} for i in range(8)]
    return out


def gen(shard, tier):
    if shard['kind'] == 'dev':
        seq = shard['seq']
        n = len(seq)
        k = shard['k']
        for slots in space.dev_states(shard, lambda a, lv: values_at(a, lv, n)):
            yield {'kind': 'dev', 'seq': seq, 'slots': slots}, k, k > 0
    else:
        yield {'kind': shard['kind'], 'part': shard['part']}, 1, True


def _tab_instances(P, ion):
    n = 0
    tot = 0.0
    for ms, mult in refmass.all_mod_lists(P, ion):
        for m in ms:
            mm = catalogue.mass_of(m[0], True)
            if catalogue.comp_of(m[0]) is not None:
                n += m[1] * mult
            if mm is not None:
                tot += abs(mm) * m[1] * mult
    return n, tot


def agree(ctx, p, s, kw_mass, kw_comp, mono, tol, label, extra):
    """the differential clause on one configuration"""
    a = lib.call(p.mass, s, monoisotopic=mono, **kw_mass)
    b = lib.call(lambda: p.comp_mass(s, **kw_comp))
    ctx.evals += 2
    if a[0] == 'err' or b[0] == 'err':
        for st, v in (a, b):
            if st == 'err' and not isinstance(v, ValueError):
                ctx.fail('foreign-exception', 'value or ValueError', v, call=[label, s, kw_mass], **extra)
                return None
        if a[0] != b[0]:
            ctx.fail('one-side-raises', {'mass': _sv(a), 'comp_mass': _sv(b)}, None, call=[label, s, kw_mass], **extra)
        return None
    comp, delta = b[1]
    st, cm = lib.call(p.chem_mass, comp, mono)
    if st != 'ok':
        ctx.fail('chem_mass-of-comp-raises', 'mass', cm, call=[label, s, kw_mass], comp=comp, **extra)
        return None
    total = cm + delta
    if not lib.close(a[1], total, tol):
        ctx.fail('mass-vs-composition', a[1], total, call=[label, s, kw_mass], deviation=a[1] - total,
                 monoisotopic=mono, delta=delta, **extra)
    if mono:
        c = lib.call(lambda: p.comp(s, estimate_delta=True, **kw_comp))
        ctx.evals += 1
        if c[0] == 'err':
            if not isinstance(c[1], ValueError):
                ctx.fail('foreign-exception', 'value or ValueError', c[1], call=['comp-estimate', s, kw_comp], **extra)
            else:
                ctx.fail('one-side-raises', {'mass': a[1], 'comp(estimate_delta)': _sv(c)}, None,
                         call=['comp-estimate', s, kw_comp], **extra)
        else:
            st, em = lib.call(p.chem_mass, c[1], True)
            # with use_isotope_on_mods the library relabels the *estimated* atoms too and warns that this is not
            # accurate: the estimate clause is not evaluated there when there is a residual (false-alarm register)
            skip = kw_comp.get('use_isotope_on_mods') and delta != 0
            if not skip and (st != 'ok' or not lib.close(em, a[1], tol)):
                ctx.fail('mass-vs-estimated-composition', a[1], em, call=['comp-estimate', s, kw_comp],
                         deviation=(a[1] - em) if st == 'ok' else None, monoisotopic=True, **extra)
    return a[1]


def _sv(x):
    return x[1] if x[0] == 'ok' else type(x[1]).__name__


def check(case, ctx):
    p = lib.pt()
    if case['kind'] == 'dev':
        slots = case['slots']
        shape = {k: v for k, v in slots.items() if k in SHAPE_AXES}
        if 'cstr' in slots:
            shape['charge'] = [slots['cstr'][0], None, slots['cstr'][1]]
        P = c01.build(case['seq'], shape)
        s = pmodel.render(P, False)
        mono = not slots.get('avg', False)
        ion = slots.get('ion', 'p')
        kw_mass, kw_comp = {}, {}
        if 'charge_arg' in slots:
            kw_mass['charge'] = kw_comp['charge'] = slots['charge_arg']
        if 'adducts_arg' in slots:
            kw_mass['charge_adducts'] = kw_comp['charge_adducts'] = slots['adducts_arg']
        if 'ion' in slots:
            kw_mass['ion_type'] = kw_comp['ion_type'] = ion
        if 'isotope_n' in slots:
            kw_mass['isotope'] = kw_comp['isotope'] = slots['isotope_n']
        if slots.get('iso_on_mods'):
            kw_mass['use_isotope_on_mods'] = kw_comp['use_isotope_on_mods'] = True
        ninst, tot = _tab_instances(P, ion)
        tol = 1e-4 if mono else (1e-3 * max(1, ninst) + 5e-6 * tot)
        z = kw_mass.get('charge', P.get('charge'))
        if not mono and z is not None and abs(z) > 4:
            # outside the quantifier (charge in [-3,4]): in average mode the fast path adds z protons, the composition
            # z x (average H - e); the 1.2e-4 per charge leaves the stated 1e-3 from |z| = 9 on.  Two-digit charges are
            # explored in monoisotopic mode only.
            ctx.outcome = [s, 'avg-high-charge-skipped']
            return
        extra = {'ion': ion, 'charge': z, 'labile': bool(P.get('labile')), 'isotope_labels': P.get('isotope'),
                 'adducts': kw_mass.get('charge_adducts', P.get('adducts'))}
        m = agree(ctx, p, s, kw_mass, kw_comp, mono, tol, 'mass', extra)
        # the same questions asked of ONE parsed object in turn (composition, mass, composition again): the answers are
        # those for the text, and the object still writes the text
        if m is not None and len(slots) <= 2:
            st0, obj = lib.call(p.parse, s)
            if st0 == 'ok':
                b1 = lib.call(lambda: p.comp_mass(obj, **kw_comp))
                a1 = lib.call(p.mass, obj, monoisotopic=mono, **kw_mass)
                b2 = lib.call(lambda: p.comp_mass(obj, **kw_comp))
                a2 = lib.call(p.mass, obj, monoisotopic=mono, **kw_mass)
                ctx.evals += 4
                if a1[0] != 'ok' or a2[0] != 'ok' or not lib.close(a1[1], m, 1e-9) or not lib.close(a2[1], m, 1e-9):
                    ctx.fail('reused-object-mass', m, [_sv(a1), _sv(a2)], call=['comp_mass, mass, comp_mass, mass', s, kw_mass], **extra)
                elif b1[0] != b2[0] or (b1[0] == 'ok' and (b1[1][0] != b2[1][0] or not lib.close(b1[1][1], b2[1][1], 1e-9))):
                    ctx.fail('reused-object-composition', _sv(b1), _sv(b2), call=['comp_mass, mass, comp_mass', s, kw_comp], **extra)
                st9, s9 = lib.call(obj.serialize)
                if st9 != 'ok' or s9 != p.parse(s).serialize():
                    ctx.fail('reused-object-changed', p.parse(s).serialize(), s9, call=['comp_mass, mass', s, kw_mass], **extra)
        # independent anchor at low levels (no isotope labels: their reference lives in C12)
        if m is not None and len(slots) <= 1 and 'isotope' not in slots and ion in ('p', 'n'):
            ref = refmass.ref_mass(P, charge=kw_mass.get('charge'), ion=ion, mono=mono,
                                   isotope=kw_mass.get('isotope', 0), adducts=kw_mass.get('charge_adducts'))
            if not lib.close(m, ref, 1e-5 if mono else 2e-3 + 1e-3 * ninst):
                ctx.fail('anchor-vs-reference', ref, m, call=['mass', s, kw_mass], deviation=m - ref,
                         adducts=extra['adducts'], monoisotopic=mono, precision=None)
        ctx.outcome = [s, sorted(kw_mass.items(), key=str), mono, None if m is None else round(m, 4)]
    elif case['kind'] == 'unimod':
        from checks import c10
        n = 0
        for i, e in enumerate(obo.unimod()):
            if i % 8 != case['part']:
                continue
            comp = c10._expand(e['comp']) if e['comp'] is not None else None
            chnops = comp is not None and all(k.lstrip('0123456789') in ('C', 'H', 'N', 'O', 'P', 'S') for k in comp)
            for mono in (True, False):
                if not mono and not chnops:
                    continue
                for s in (f"K[U:{e['acc']}]", f"[U:{e['acc']}]-K", f"<[U:{e['acc']}]@K>KK"):
                    n += 1
                    tol = 1e-4 if mono else 1e-3 * (2 if s.startswith('<') else 1) + 5e-6 * abs(e['mono']) * 2
                    agree(ctx, p, s, {}, {}, mono, tol, 'unimod', {'entry': e['name']})
        ctx.sub_states = n
        ctx.sub_nontrivial = n
        ctx.outcome = n
    else:
        n = 0
        for i, e in enumerate(x for x in obo.psimod() if not x['obsolete']):
            if i % 8 != case['part']:
                continue
            if e['mono'] is None or e['formula'] in (None, 'none'):
                continue
            comp = psimod_formula(e['formula'])
            if comp is None:
                continue
            try:
                ref = refdata.comp_mass(comp, True)
            except KeyError:
                continue
            if not lib.close(ref, e['mono'], 1e-3):
                continue  # the table row is not self-consistent: outside the quantifier
            chnops = all(k.lstrip('0123456789') in ('C', 'H', 'N', 'O', 'P', 'S') for k in comp)
            for mono in (True, False):
                if not mono and (not chnops or e['avg'] is None):
                    continue
                if not mono and not lib.close(refdata.comp_mass(comp, False), e['avg'], 6e-3 + 5e-6 * abs(e['mono'])):
                    continue  # the row's own average mass does not follow from its own formula
                s = f"K[MOD:{e['acc']}]"
                n += 1
                tol = 1e-3 if mono else 6e-3 + 5e-6 * abs(e['mono'])
                agree(ctx, p, s, {}, {}, mono, tol, 'psimod', {'entry': e['name']})
        ctx.sub_states = n
        ctx.sub_nontrivial = n
        ctx.outcome = n


_PF = re.compile(r'^(?:\((\d+)\))?([A-Z][a-z]?)$')


def psimod_formula(text):
    toks = text.split()
    if len(toks) % 2:
        return None
    comp = {}
    for el, cnt in zip(toks[::2], toks[1::2]):
        m = _PF.match(el)
        if not m:
            return None
        try:
            c = int(cnt)
        except ValueError:
            return None
        iso, sym = m.group(1), m.group(2)
        key = f'{iso}{sym}' if iso else sym
        comp[key] = comp.get(key, 0) + c
    return {k: v for k, v in comp.items() if v}


# ---- known findings ---------------------------------------------------------------------------------------------
def _d5(case, f):
    """the adduct electron defect of C02: the mass path removes one electron per ion kind, the composition path one per
    ion, so mass - composition (and mass - reference) = sum (n-1)*q*m_e."""
    if f['clause'] not in ('anchor-vs-reference', 'mass-vs-composition', 'mass-vs-estimated-composition'):
        return False
    if f.get('deviation') is None:
        return False
    pred = c02.d5_prediction(f.get('adducts'))
    if pred is None or abs(pred) < 1e-12:
        return False
    return abs(f['deviation'] - pred) <= (1e-4 if f.get('monoisotopic', True) else 3e-3)


CLASSIFIERS = {'D5': _d5}
