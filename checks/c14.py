"""C14 — isotopic distributions are normalised, centred on the right masses and complete.

Space (b): every composition with <= A atoms over C,H,N,O,S,P against the exact multinomial expansion from the frozen
isotope table; identity clauses on a count grid (incl. fractional counts, particles, labelled elements, Se/Cl/Br/Fe) x
option axes at deviation <= 2."""
import itertools
import math

from mc import lib, refdata

CASE_TIMEOUT_S = 300      # wall-clock horizon per state (states of this check bundle many sub-states; generous for loaded machines)
PROPERTY = 'C14'
RULE = ('(exact) full product: every composition with 1..A atoms over {C,H,N,O,S,P} compared peak by peak with the exact '
        'multinomial expansion; (identities) compositions on the count grid {1,2,7,30,200} with <=2 elements of '
        '{C,H,N,O,S,P,Se,Cl,Br,Fe} plus fractional counts, particle entries (e,p,n) and labelled elements (13C, D) x '
        'options (max_isotopes, min_abundance_threshold, distribution_resolution 0..6, use_neutron_count x '
        'output_masses_for_neutron_offset, distribution_abundance, is_abundance_sum) at deviation <=2; the averagine '
        'wrapper on 3 masses x the same option space; non-trivial = at '
        'least two atoms or one option set')
ASSUMPTIONS = ['isotope masses/abundances: frozen NIST table; exact peaks are assigned to the nearest library peak within '
               'k*0.5*10^-r + 1e-6 (r = resolution, k = number of convolved elements)',
               'the library prunes per-element peaks below 1e-8: reference peaks below 1e-6 of the base peak are not '
               'required, abundances are compared within 2e-6 of the base peak; the mean within 1e-6*mass + position slack',
               'lightest-peak and mean clauses only with no pruning option; mean clause on integer compositions',
               'lightest-peak clause for C,H,N,O,S,P (+ labelled elements, particles); Se/Cl/Br/Fe: normalisation + mean']

LIGHT = ['C', 'H', 'N', 'O', 'S', 'P']


def describe(tier):
    return {'exact_max_atoms': 12 if tier == 'thorough' else 7, 'grid': [1, 2, 7, 30, 200],
            'heavy_elements': ['Se', 'Cl', 'Br', 'Fe']}


def compositions(max_atoms):
    for total in range(1, max_atoms + 1):
        for c in itertools.combinations_with_replacement(range(len(LIGHT)), total):
            comp = {}
            for i in c:
                comp[LIGHT[i]] = comp.get(LIGHT[i], 0) + 1
            yield comp


OPTS = {
    'max_isotopes': [1, 3, 20],
    'min_abundance_threshold': [0, 1e-6, 1e-3],
    'distribution_resolution': [0, 1, 2, 3, 4, 6],
    'use_neutron_count': [True],
    'output_masses_for_neutron_offset': [True],
    'distribution_abundance': [100.0, 1e6, 0.5],
    'is_abundance_sum': [True],
}


EST_MASSES = [50.0, 800.0, 4321.5]


def identity_comps():
    # the library enumerates every isotopologue of an element before merging: counts are capped per element so that a
    # single call stays below ~1 s (Se/Fe: 6/4 isotopes)
    grids = {'C': [1, 2, 7, 30, 200], 'H': [1, 2, 7, 30, 200], 'N': [1, 2, 7, 30, 200], 'O': [1, 2, 7, 30],
             'S': [1, 2, 7, 30], 'P': [1, 2, 7, 30, 200], 'Se': [1, 2, 7], 'Cl': [1, 2, 7, 30], 'Br': [1, 2, 7, 30],
             'Fe': [1, 2, 7]}
    els = LIGHT + ['Se', 'Cl', 'Br', 'Fe']
    out = []
    for e in els:
        for n in grids[e]:
            out.append({e: n})
    for a, b in itertools.combinations(els, 2):
        for n, m in ((1, 1), (2, 7), (30, 2), (7, 30), (200, 7)):
            if (a in LIGHT or b in LIGHT) and n <= max(grids[a]) and m <= max(grids[b]):
                out.append({a: n, b: m})
    out += [{'C': 6, 'H': 12, 'O': 6}, {'C': 50, 'H': 71, 'N': 13, 'O': 12}, {'C': 100, 'H': 160, 'N': 30, 'O': 40, 'S': 2}]
    # fractional counts, particles, labelled elements, zero entries
    out += [{'C': 0.5}, {'C': 7.25, 'H': 12}, {'C': 4.9384, 'H': 7.7583, 'N': 1.3577, 'O': 1.4773, 'S': 0.0417},
            {'C': 2, 'H': 4, 'e': -1}, {'C': 2, 'H': 4, 'e': -2}, {'C': 2, 'H': 5, 'p': 1}, {'C': 2, 'H': 4, 'n': 1},
            {'C': 2, 'H': 4, 'p': 2, 'e': 1}, {'C': 7.5, 'H': 4, 'e': -1}, {'13C': 2, 'C': 4, 'H': 12},
            {'D': 3, 'C': 1, 'H': 1}, {'13C': 6}, {'C': 2, 'H': 0, 'O': 1}, {'C': 3, 'N': 0},
            # every spelling of a labelled atom
            {'2H': 2, 'C': 2, 'H': 4}, {'T': 1, 'C': 1, 'H': 3}, {'3H': 1, 'C': 1}, {'15N': 2, 'N': 1},
            {'18O': 1, 'O': 1, 'H': 2}, {'34S': 1, 'S': 1}, {'2H': 1.5, 'C': 1},
            # no atoms at all, only particles
            {'p': 1}, {'e': -1}, {'C': 0, 'H': 0, 'p': 2, 'e': 1}, {'n': 2}]
    return out


def shards(tier):
    d = describe(tier)
    out = [{'kind': 'exact', 'atoms': n} for n in range(1, d['exact_max_atoms'] + 1)]
    comps = identity_comps()
    out += [{'kind': 'ident', 'lo': i, 'hi': min(len(comps), i + 6)} for i in range(0, len(comps), 6)]
    out.append({'kind': 'merge'})
    out += [{'kind': 'estimate', 'mass': m} for m in EST_MASSES]
    return out


def gen(shard, tier):
    if shard['kind'] == 'exact':
        n = shard['atoms']
        for comp in compositions(n):
            if sum(comp.values()) == n:
                yield {'kind': 'exact', 'comp': comp}, n, n >= 2
    elif shard['kind'] == 'ident':
        comps = identity_comps()
        names = list(OPTS)
        for i in range(shard['lo'], shard['hi']):
            comp = comps[i]
            for k in (0, 1, 2):
                for sub in itertools.combinations(names, k):
                    for vals in itertools.product(*[OPTS[a] for a in sub]):
                        yield {'kind': 'ident', 'comp': comp, 'opts': dict(zip(sub, vals))}, k, True
            # three options at once: every triple of option names with the first listed value of each
            for sub in itertools.combinations(names, 3):
                yield {'kind': 'ident', 'comp': comp, 'opts': {a: OPTS[a][0] for a in sub}}, 3, True
    elif shard['kind'] == 'estimate':
        names = list(OPTS)
        for k in (0, 1, 2):
            for sub in itertools.combinations(names, k):
                for vals in itertools.product(*[OPTS[a] for a in sub]):
                    yield {'kind': 'estimate', 'mass': shard['mass'], 'opts': dict(zip(sub, vals))}, k, True
    else:
        yield {'kind': 'merge'}, 1, True


# ---- exact multinomial reference ---------------------------------------------------------------------------------
def element_peaks(el, n):
    """exact isotopologue distribution of n atoms of one element: list of (mass, abundance, nominal offset)"""
    if el in refdata.ISO and el not in refdata.ISOTOPES:
        return [(refdata.ISO[el] * n, 1.0, 0)]
    isos = refdata.ISOTOPES[el]
    base = refdata.MONO_A[el]
    out = []

    def rec(i, left, mass, coef, off):
        if i == len(isos) - 1:
            a, m, ab = isos[i]
            out.append((mass + left * m, coef * ab ** left, off + left * (a - base)))
            return
        a, m, ab = isos[i]
        for k in range(left + 1):
            rec(i + 1, left - k, mass + k * m, coef * math.comb(left, k) * ab ** k, off + k * (a - base))
    rec(0, n, 0.0, 1.0, 0)
    return out


def exact_peaks(comp):
    peaks = [(0.0, 1.0, 0)]
    for el, n in comp.items():
        ep = element_peaks(el, n)
        peaks = [(m1 + m2, a1 * a2, o1 + o2) for (m1, a1, o1) in peaks for (m2, a2, o2) in ep]
    return peaks


def mono_mass(comp):
    return sum(refdata.atom_mass(k, True) * v for k, v in comp.items())


def check(case, ctx):
    import copy
    p = lib.pt()
    if case['kind'] == 'exact':
        comp = case['comp']
        k = len(comp)
        for r in (5, 6):
            st, dist = lib.call(p.isotopic_distribution, dict(comp), distribution_resolution=r, is_abundance_sum=True)
            ctx.evals += 1
            if st != 'ok':
                ctx.fail('raises', 'distribution', dist, comp=comp)
                return
            tol = k * 0.5 * 10 ** (-r) + 1e-6
            ref = exact_peaks(comp)
            masses = [m for m, _ in dist]
            if masses != sorted(masses):
                ctx.fail('not-sorted', sorted(masses), masses, comp=comp)
            st2, dist1 = lib.call(p.isotopic_distribution, dict(comp), distribution_resolution=r)
            if st2 != 'ok' or not lib.close(max(a for _, a in dist1), 1.0, 1e-12):
                ctx.fail('base-peak-not-one', 1.0, dist1, comp=comp)
            # cluster library and reference peaks together (gap > 2*tol separates clusters) and compare the abundance
            # per cluster; both are probability distributions (the library renormalises after pruning at 1e-8)
            pts = sorted([(m, a, 0) for m, a in dist] + [(m, a, 1) for m, a, _ in ref])
            clusters = []
            for m, a, which in pts:
                if clusters and m - clusters[-1]['hi'] <= 2 * tol:
                    c = clusters[-1]
                else:
                    c = {'lo': m, 'hi': m, 'sum': [0.0, 0.0], 'n': [0, 0]}
                    clusters.append(c)
                c['hi'] = m
                c['sum'][which] += a
                c['n'][which] += 1
            for c in clusters:
                if abs(c['sum'][0] - c['sum'][1]) > 2e-6:
                    ctx.fail('exact-abundance', c['sum'][1], c['sum'][0], mass=[c['lo'], c['hi']], comp=comp, resolution=r,
                             peaks=c['n'])
                    break
        # whole-number counts given as floats (12.0 atoms) describe the same composition
        st0, base = lib.call(p.isotopic_distribution, dict(comp), distribution_resolution=5)
        first = sorted(comp)[0]
        for variant in ({e: float(v) for e, v in comp.items()}, dict(comp, **{first: float(comp[first])}),
                        dict({e: float(v) for e, v in comp.items()}, p=1.0)):
            ref_d = base
            if 'p' in variant:
                st0p, ref_d = lib.call(p.isotopic_distribution, dict(comp, p=1), distribution_resolution=5)
                if st0p != 'ok':
                    continue
            st1, d1 = lib.call(p.isotopic_distribution, dict(variant), distribution_resolution=5)
            ctx.evals += 1
            same = st0 == 'ok' and st1 == 'ok' and len(d1) == len(ref_d) and all(
                abs(m1 - m0) <= 2e-5 and abs(a1 - a0) <= 1e-7 for (m1, a1), (m0, a0) in zip(d1, ref_d))
            if not same:
                ctx.fail('float-typed-whole-counts', ref_d if st0 == 'ok' else str(ref_d), d1 if st1 == 'ok' else str(d1)[:200],
                         comp=variant)
                break
        ctx.outcome = [comp, len(dist)]
        return
    if case['kind'] == 'merge':
        d1 = [(100.0, 1.0), (101.0, 0.5)]
        d2 = [(101.0, 0.25), (102.0, 0.125), (99.5, 2.0)]
        st, m = lib.call(p.merge_isotopic_distributions, list(d1), list(d2))
        exp = [(99.5, 2.0), (100.0, 1.0), (101.0, 0.75), (102.0, 0.125)]
        if st != 'ok' or [tuple(x) for x in m] != exp:
            ctx.fail('merge', exp, m)
        st, m = lib.call(p.merge_isotopic_distributions, [(100.004, 1.0)], [(100.0041, 1.0)], precision=3)
        if st != 'ok' or [tuple(x) for x in m] != [(100.004, 2.0)]:
            ctx.fail('merge-precision', [(100.004, 2.0)], m)
        # every pattern is binned alike (also the first one), equal masses inside one pattern add, order is irrelevant
        fine = [(100.0041, 1.0), (100.0044, 0.5), (101.2, 0.25)]
        coarse = [(100.004, 1.0), (101.2004, 0.25)]
        exp = [(100.004, 2.5), (101.2, 0.5)]
        for args in ((fine, coarse), (coarse, fine), (fine + coarse,), ([], fine, coarse)):
            st, m = lib.call(p.merge_isotopic_distributions, *[list(a) for a in args], precision=3)
            ctx.evals += 1
            if st != 'ok' or [(round(x, 9), round(y, 9)) for x, y in m] != exp:
                ctx.fail('merge-precision', exp, m, args=[list(a) for a in args])
        st, m = lib.call(p.merge_isotopic_distributions, [(100.0, 1.0), (100.0, 2.0)], [(100.0, 0.5)])
        if st != 'ok' or [tuple(x) for x in m] != [(100.0, 3.5)]:
            ctx.fail('merge-repeated-mass', [(100.0, 3.5)], m)
        for comps in (({'C': 2, 'H': 6}, {'C': 2, 'H': 6}), ({'C': 1}, {'N': 1, 'H': 3}), ({'S': 2}, {'S': 2}, {'S': 2})):
            ds = [p.isotopic_distribution(dict(c)) for c in comps]
            st, m = lib.call(p.merge_isotopic_distributions, *[list(d) for d in ds])
            ctx.evals += 1
            exp = {}
            for d in ds:
                for mass, a in d:
                    exp[mass] = exp.get(mass, 0.0) + a
            if st != 'ok' or [tuple(x) for x in m] != sorted(exp.items()):
                ctx.fail('merge', sorted(exp.items())[:5], m[:5] if st == 'ok' else m, comps=list(comps))
        ctx.outcome = 'merge'
        return
    if case['kind'] == 'estimate':
        # the averagine wrapper: same options, same normalisation, same pattern as the pattern of its own composition
        opts = case['opts']
        call = ['estimate_isotopic_distribution', case['mass'], opts]
        st, dist = lib.call(p.estimate_isotopic_distribution, case['mass'], **opts)
        st2, ec = lib.call(p.estimate_comp, case['mass'])
        ctx.evals += 2
        if st != 'ok' or st2 != 'ok' or not dist:
            ctx.fail('raises', 'distribution', [dist, ec], call=call)
            return
        st3, ref = lib.call(p.isotopic_distribution, dict(ec), **opts)
        if st3 != 'ok' or [tuple(x) for x in ref] != [tuple(x) for x in dist]:
            ctx.fail('estimate-vs-own-composition', ref[:4] if st3 == 'ok' else ref, dist[:4], call=call)
        # the returned list is the caller's: after the caller edits it, the same request gives the same pattern again
        keep = [tuple(x) for x in dist]
        try:
            dist.reverse()
            dist.pop()
        except Exception:
            pass
        st4, again = lib.call(p.estimate_isotopic_distribution, case['mass'], **opts)
        ctx.evals += 1
        if st4 != 'ok' or [tuple(x) for x in again] != keep:
            ctx.fail('estimate-after-editing-previous-result', keep[:4], again[:4] if st4 == 'ok' else again, call=call)
        dist = list(keep)
        masses = [m for m, _ in dist]
        if masses != sorted(masses):
            ctx.fail('not-sorted', sorted(masses), masses, call=call)
        want = opts.get('distribution_abundance', 1.0)
        got = sum(a for _, a in dist) if opts.get('is_abundance_sum') else max(a for _, a in dist)
        if not lib.close(got, want, 1e-9 * max(1.0, want)):
            ctx.fail('sum-normalisation' if opts.get('is_abundance_sum') else 'max-normalisation', want, got, call=call)
        ctx.outcome = [case['mass'], sorted(opts.items(), key=str), len(dist)]
        return
    comp = case['comp']
    opts = case['opts']
    given = copy.deepcopy(comp)
    st, dist = lib.call(p.isotopic_distribution, given, **opts)
    ctx.evals += 1
    if given != comp or list(given) != list(comp):
        ctx.fail('composition-argument-changed', comp, given, call=['isotopic_distribution', comp, opts])
    call = ['isotopic_distribution', comp, opts]
    if st != 'ok':
        ctx.fail('raises', 'distribution', dist, call=call)
        return
    if not dist:
        ctx.fail('empty', 'at least one peak', dist, call=call)
        return
    masses = [m for m, _ in dist]
    if masses != sorted(masses):
        ctx.fail('not-sorted', sorted(masses), masses, call=call)
    want = opts.get('distribution_abundance', 1.0)
    if opts.get('is_abundance_sum'):
        tot = sum(a for _, a in dist)
        if not lib.close(tot, want, 1e-9 * max(1.0, want)):
            ctx.fail('sum-normalisation', want, tot, call=call)
    else:
        top = max(a for _, a in dist)
        if not lib.close(top, want, 1e-9 * max(1.0, want)):
            ctx.fail('max-normalisation', want, top, call=call)
    if any(a < 0 for _, a in dist):
        ctx.fail('negative-abundance', '>=0', min(a for _, a in dist), call=call)
    elements = {k: v for k, v in comp.items() if k not in ('e', 'p', 'n') and v != 0}
    integer = all(isinstance(v, int) for v in elements.values())
    kconv = max(1, len(elements))
    r = opts.get('distribution_resolution', 5)
    pos_tol = kconv * 0.5 * 10 ** (-r) + 1e-6
    pruning = any(o in opts for o in ('max_isotopes', 'min_abundance_threshold'))
    neutron_view = opts.get('use_neutron_count', False)
    light_only = all(k.lstrip('0123456789') in LIGHT + ['D', 'T'] for k in elements)
    mono = mono_mass(comp)
    if not pruning and light_only and (not neutron_view or opts.get('output_masses_for_neutron_offset')):
        if not lib.close(dist[0][0], mono, pos_tol):
            extra_mass = mono - mono_mass({k: round(v) for k, v in elements.items()})
            ctx.fail('lightest-peak', mono, dist[0][0], call=call, deviation=dist[0][0] - mono,
                     particles={k: comp[k] for k in ('e', 'p', 'n') if k in comp}, integer=integer,
                     neutron_output=bool(neutron_view and opts.get('output_masses_for_neutron_offset')),
                     non_element_mass=extra_mass, tolerance=pos_tol)
    if not pruning and integer and not neutron_view:
        avg = sum(refdata.atom_mass(k, False) * v for k, v in comp.items())
        tot = sum(a for _, a in dist)
        mean = sum(m * a for m, a in dist) / tot
        if not lib.close(mean, avg, pos_tol + 1e-6 * max(1.0, avg)):
            ctx.fail('mean', avg, mean, call=call, deviation=mean - avg,
                     particles={k: comp[k] for k in ('e', 'p', 'n') if k in comp})
        st4, lavg = lib.call(p.chem_mass, copy.deepcopy(comp), monoisotopic=False)
        ctx.evals += 1
        if st4 != 'ok' or not lib.close(mean, lavg, pos_tol + 1e-6 * max(1.0, avg)):
            ctx.fail('mean-vs-library-average-mass', lavg, mean, call=call)
    thr = opts.get('min_abundance_threshold')
    if thr and 'max_isotopes' not in opts:
        # the reporting threshold only removes peaks: what is kept equals the unpruned pattern (relative to the base peak)
        o2 = {k: v for k, v in opts.items() if k != 'min_abundance_threshold'}
        st5, full = lib.call(p.isotopic_distribution, copy.deepcopy(comp), **o2)
        ctx.evals += 1
        if st5 == 'ok' and full:
            fb, kb_ = max(a for _, a in full), max(a for _, a in dist)
            fullr = {m: a / fb for m, a in full}
            keptr = {m: a / kb_ for m, a in dist}
            missing = [m for m, a in fullr.items() if a > thr * 1.05 and m not in keptr]
            extra = [m for m in keptr if fullr.get(m, 0.0) < thr * 0.95]
            changed = [m for m, a in keptr.items() if m in fullr and abs(a - fullr[m]) > 1e-9]
            if missing or extra or changed:
                ctx.fail('threshold-changes-kept-peaks', {'missing': missing[:3], 'extra': extra[:3]},
                         {m: [fullr[m], keptr[m]] for m in changed[:3]}, call=call)
    if neutron_view and not opts.get('output_masses_for_neutron_offset') and integer and not pruning and r >= 3:
        # the neutron-offset view is the mass view binned by nominal mass
        o2 = {k: v for k, v in opts.items() if k != 'use_neutron_count'}
        st2, mv = lib.call(p.isotopic_distribution, copy.deepcopy(comp), **dict(o2, is_abundance_sum=True,
                                                                                distribution_abundance=1.0))
        st3, nv = lib.call(p.isotopic_distribution, copy.deepcopy(comp), **dict(opts, is_abundance_sum=True,
                                                                                distribution_abundance=1.0))
        ctx.evals += 2
        if st2 == 'ok' and st3 == 'ok':
            ref = exact_peaks(elements) if sum(elements.values()) <= 12 else None
            bins = {}
            m0 = mono_mass(comp)   # listed particles shift every peak of the mass view alike
            for m, a in mv:
                kbin = round(m - m0)
                bins[kbin] = bins.get(kbin, 0.0) + a
            nvd = {int(round(o)): a for o, a in nv}
            keys = set(bins) | set(nvd)
            # isotopologues below 1e-8 are pruned before merging in the mass view, after merging in the neutron view
            bad = [k for k in keys if abs(bins.get(k, 0.0) - nvd.get(k, 0.0)) > 2e-5]
            if bad:
                ctx.fail('neutron-view-vs-binned-mass-view', {k: bins.get(k, 0.0) for k in sorted(bad)[:4]},
                         {k: nvd.get(k, 0.0) for k in sorted(bad)[:4]}, call=call)
    ctx.outcome = [comp, sorted(opts.items(), key=str), len(dist)]


def _d15b(case, f):
    """fractional counts with use_neutron_count + output_masses_for_neutron_offset: the fractional-count / particle
    correction is added to the neutron offset and multiplied by the neutron mass (pinned by a doctest: 860.625)"""
    if f['clause'] != 'lightest-peak' or f.get('integer') or not f.get('neutron_output'):
        return False
    pred = f['non_element_mass'] * (refdata.NEUTRON - 1.0)
    return abs(f['deviation'] - pred) <= f['tolerance'] + 1e-9


CLASSIFIERS = {'D15b': _d15b}
