"""C08 — queries never change their arguments or depend on call history.

Space (c): operation sequences on live shared objects.  A state is a call history; the world (annotation objects,
dictionaries, lists, fragments, peak lists, configs) is rebuilt fresh for every history and the prefix replayed, nodes
are never merged.  Alphabet: every public function / non-inplace annotation method that accepts an annotation, dict or
list.  Checked at every node: argument snapshots, result == result on a fresh world, process-wide state (global RNG,
modification databases, constant tables); at the end of every history: deep mutation of the last result must not reach
the arguments."""
import copy
import dataclasses
import itertools
import random

from mc import lib, engine

CASE_TIMEOUT_S = 300      # wall-clock horizon per state (states of this check bundle many sub-states; generous for loaded machines)
PROPERTY = 'C08'
RULE = ('operation-sequence space: every history of length 1 and every ordered pair (quick) / additionally every ordered '
        'triple whose first two calls are drawn from the 28 argument-/state-touching labels (thorough) over 131 call labels x 3 '
        'annotation shapes (rich: labile+static+isotope+terminal+residue mods+charge+adducts; ambiguous: unknown+'
        'interval; plain); a state = one history on a freshly built world; non-trivial = every history')
ASSUMPTIONS = ['explicit editors are excluded as the statement excludes them: inplace=True, add_*/pop_* (incl. the add_mods '
               'and pop_mods functions), property setters, clear_empty_mods',
               'raw accessors that return a live field by design and the Fragment.parent_sequence back-reference are not '
               'results for the aliasing clause',
               'result equality is structural (type-tagged dump of declared fields), exceptions compare by class']

SHAPES = ['{Glycan:Hex}<[Carbamidomethyl]@K><13C>[Acetyl]-PEK[Oxidation]TK-[Amidated]/2[+2Na+]',
          '[Phospho]?[Acetyl]-PE(KT)[Oxidation]K[1.5]-[Amidated]/2',
          'PEPTIDEK']


def build_world(shape):
    p = lib.pt()
    W = {}
    W['A'] = p.parse(SHAPES[shape])
    W['B'] = p.parse('EK[Oxidation]')
    W['B2'] = p.parse('PE')
    # the same peptide written with the modifications of each site in two different orders
    W['C'] = p.parse('[Formyl][Acetyl]-P[Phospho][1]EK[Oxidation]')
    W['C2'] = p.parse('[Acetyl][Formyl]-P[1][Phospho]EK[Oxidation]')
    # labile + unknown-position + N-terminal modifications and no isotope label (the direct mass path)
    W['E'] = p.parse('{Glycan:Hex}[Phospho]?[Acetyl]-PEK[1.5]-[Amidated]')
    # two peptides modified at DIFFERENT positions (a comparison looks positions up in both)
    W['D1'] = p.parse('P[Oxidation]EPTIDEPEP[Phospho]K')
    W['D2'] = p.parse('PEP[Phospho]')
    W['rules'] = {'K': ['Methyl'], 'T': [p.Mod('Phospho', 1)]}
    W['nrule'] = ['Formyl']
    W['vrules'] = {'K': [['Methyl'], ['Dimethyl']], 'P': 'Oxidation'}
    W['comp'] = {'C': 6, 'H': 12, 'O': 6, 'e': -1, 'N': 0}
    W['comp0'] = {'C': 6.5, 'H': 12, 'O': 6, 'S': 0, '13C': 0}    # zero counts, no particle keys
    W['gly'] = {'Hex': 2, 'HexNAc': 1}
    W['losses'] = [('K', -10.0)]
    W['labels'] = ['15N']
    W['labels2'] = [p.Mod('13C', 1), p.Mod('D', 1)]
    W['modlist'] = [p.Mod('Oxidation', 1), p.Mod(1.5, 2)]
    W['rawlist'] = ['Oxidation', 1.5, p.Mod('Phospho', 2)]
    W['rawdict'] = {0: 'Oxidation', 2: [1.5, 'Phospho']}
    W['rawlol'] = [['Oxidation'], [1.5, 'Phospho']]
    W['ivraw'] = [(0, 2, False, ['Oxidation']), (2, 3, True, None)]
    W['ivlist'] = [p.Interval(0, 2, False, [p.Mod('Oxidation', 1)])]
    W['staticlist'] = [p.Mod('[Carbamidomethyl]@C', 1), p.Mod('[1.5]@S,T', 1)]
    W['staticdict'] = {'C': [p.Mod('Carbamidomethyl', 1)], 'S': [p.Mod(1.5, 1)]}
    W['frags'] = p.fragment('PEPK', ['b', 'y'], [1])
    W['frags'].reverse()
    base = sorted(f.mz for f in W['frags'])
    W['mzs'] = [base[3] + 0.1, base[0], 5000.0, base[1] - 0.2, base[0] + 0.3]
    W['ints'] = [5.0, 1.0, 2.0, 7.0, 3.0]
    W['theo'] = list(base)
    W['smzs'] = sorted(W['mzs'])
    W['theo_desc'] = sorted(base, reverse=True)     # plain m/z values in descending order (fragment(..., return_type='mz'))
    W['matches'] = p.get_fragment_matches(list(W['frags']), list(W['mzs']), list(W['ints']), 0.5, 'th', 'all')
    W['cfg'] = p.EnzymeConfig(['lys-c'], 1, False, True)
    W['cfgs'] = [p.EnzymeConfig(['lys-c'], 0, False, True), p.EnzymeConfig('glu-c', 0, False, False)]
    W['dist1'] = [(100.0, 1.0), (101.0, 0.5)]
    W['dist2'] = [(101.0, 0.25), (102.0, 0.125)]
    W['fragmenter'] = p.Fragmenter('SKSMK', True)
    W['formula'] = 'C6H12O6'
    W['spans'] = [(0, 3, 0), (3, 6, 0), (0, 6, 1)]
    W['sites'] = [3, 6]
    return W


def L(p):
    """label -> callable(W).  Generators are materialised inside the label."""
    A, B = 'A', 'B'
    t = {}
    # ---- sequence_funcs
    t['sequence_length'] = lambda W: p.sequence_length(W[A])
    t['is_ambiguous'] = lambda W: p.is_ambiguous(W[A])
    t['is_modified'] = lambda W: p.is_modified(W[A])
    t['get_mods'] = lambda W: p.get_mods(W[A])
    t['condense_static_mods'] = lambda W: p.condense_static_mods(W[A])
    t['strip_mods'] = lambda W: p.strip_mods(W[A])
    t['reverse'] = lambda W: p.reverse(W[A])
    t['reverse-swap'] = lambda W: p.reverse(W[A], swap_terms=True)
    t['shuffle-seed'] = lambda W: p.shuffle(W[A], seed=3)
    t['shift'] = lambda W: p.shift(W[A], 2)
    t['span_to_sequence'] = lambda W: p.span_to_sequence(W[A], (1, 3, 0))
    t['split'] = lambda W: p.split(W[A])
    t['count_residues'] = lambda W: p.count_residues(W[A])
    t['is_subsequence'] = lambda W: p.is_subsequence(W[B], W[A])
    t['is_subsequence-unordered'] = lambda W: p.is_subsequence(W[B], W[A], order=False)
    t['sort'] = lambda W: p.sort(W[A])
    t['find_subsequence_indices'] = lambda W: p.find_subsequence_indices(W[A], W[B])
    t['find_subsequence_indices-ignore'] = lambda W: p.find_subsequence_indices(W[A], W[B], ignore_mods=True)
    t['coverage'] = lambda W: p.coverage(W[A], [W[B], W['B2']], accumulate=True)
    t['percent_coverage'] = lambda W: p.percent_coverage(W[A], [W[B], 'PE'])
    t['is_sequence_valid'] = lambda W: p.is_sequence_valid(W[A])
    t['count_aa'] = lambda W: p.count_aa(W[A])
    t['serialize'] = lambda W: p.serialize(W[A])
    t['serialize-plus'] = lambda W: p.serialize(W[A], True)
    # ---- combinatoric
    t['permutations'] = lambda W: p.permutations(W[A], 2)
    t['product'] = lambda W: p.product(W[A], 1)
    t['combinations'] = lambda W: p.combinations(W[A], 2)
    t['combinations_with_replacement'] = lambda W: p.combinations_with_replacement(W[A], 2)
    # ---- mod builders
    t['apply_static_mods'] = lambda W: p.apply_static_mods(W[A], W['rules'], W['nrule'])
    t['apply_static_mods-annotation'] = lambda W: p.apply_static_mods(W[A], W['rules'], None, None, 'append', 'annotation')
    t['apply_variable_mods'] = lambda W: p.apply_variable_mods(W[A], W['vrules'], 1, W['nrule'])
    t['apply_variable_mods-max0-annotation'] = lambda W: p.apply_variable_mods(W[A], W['vrules'], 0, return_type='annotation')
    t['apply_variable_mods-annotation'] = lambda W: p.apply_variable_mods(W[A], W['vrules'], 1, return_type='annotation')
    # ---- digestion
    t['digest'] = lambda W: list(p.digest(W[A], 'trypsin/P'))
    t['digest-annotation'] = lambda W: list(p.digest(W[A], ['lys-c', 'glu-c'], 1, True, return_type='annotation'))
    t['digest-annotation-span'] = lambda W: list(p.digest(W[A], 'lys-c', return_type='annotation-span'))
    t['digest_from_config'] = lambda W: list(p.digest_from_config(W[A], W['cfg']))
    t['sequential_digest'] = lambda W: list(p.sequential_digest(W[A], W['cfgs']))
    t['sequential_digest-annotation'] = lambda W: list(p.sequential_digest(W[A], W['cfgs'], return_type='annotation'))
    t['get_left_semi'] = lambda W: list(p.get_left_semi_enzymatic_sequences(W[A]))
    t['get_right_semi'] = lambda W: list(p.get_right_semi_enzymatic_sequences(W[A], return_type='annotation'))
    t['get_semi'] = lambda W: list(p.get_semi_enzymatic_sequences(W[A]))
    t['get_non_enzymatic'] = lambda W: list(p.get_non_enzymatic_sequences(W[A], 2, 3))
    t['get_cleavage_sites'] = lambda W: list(p.get_cleavage_sites(W[A], 'lys-c'))
    t['build_semi_spans'] = lambda W: list(p.build_semi_spans(W['spans']))
    t['build_spans'] = lambda W: list(p.build_spans(6, W['sites'], 1, None, None, True))
    t['calculate_span_coverage'] = lambda W: p.calculate_span_coverage(W['spans'], 6, True)
    # ---- fragmentation
    t['fragment'] = lambda W: p.fragment(W[A], ['b', 'y'], [1, 2])
    t['fragment-losses'] = lambda W: p.fragment(W[A], 'b', 1, losses=W['losses'], water_loss=True, ammonia_loss=True)
    t['fragment-mz'] = lambda W: p.fragment(W[A], ['y', 'by', 'i'], [1], return_type='mz-label')
    t['Fragmenter'] = lambda W: p.Fragmenter(W[A]).fragment(['b'], [1], losses=W['losses'], water_loss=True)
    t['fragment-avg'] = lambda W: p.fragment(W[A], ['a', 'b', 'y'], [1], monoisotopic=False)
    t['fragment-mono-aby'] = lambda W: p.fragment(W[A], ['a', 'b', 'y'], [1])
    # one shared Fragmenter object, called with different options
    t['shared-Fragmenter-ml1'] = lambda W: W['fragmenter'].fragment(['b', 'y'], [1], water_loss=True)
    t['shared-Fragmenter-ml2'] = lambda W: W['fragmenter'].fragment(['b', 'y'], [1], water_loss=True, max_losses=2)
    t['shared-Fragmenter-z2'] = lambda W: W['fragmenter'].fragment(['b', 'y'], [2], water_loss=True)
    t['shared-Fragmenter-iso'] = lambda W: W['fragmenter'].fragment(['b', 'y'], [1], isotopes=[0, 1], return_type='mz')
    # ---- mass / composition
    t['parse_chem_formula-str'] = lambda W: p.parse_chem_formula(W['formula'])
    t['chem_mass-str'] = lambda W: p.chem_mass(W['formula'])
    t['apply_isotope_mods_to_composition-str'] = lambda W: p.apply_isotope_mods_to_composition(W['formula'], W['labels2'])
    t['mod_comp-str'] = lambda W: (p.mod_comp('Formula:' + W['formula']), p.mod_comp('Acetyl'), p.mod_comp('Glycan:Hex'))
    t['mass-formula-mod'] = lambda W: (p.mass('PEK[Formula:C6H12O6]'), p.comp('PEK[Formula:C6H12O6][Acetyl]'))
    t['mod_mass-str'] = lambda W: (p.mod_mass('Acetyl'), p.mod_mass('Formula:C6H12O6', False), p.mod_mass('M:00719'))
    t['parse_glycan_formula'] = lambda W: (p.parse_glycan_formula('HexNAc2Hex3'), p.glycan_comp('HexNAc2Hex3'))
    t['mass-composite-glycan'] = lambda W: (p.mass('N[Glycan:HexNAc2Hex3]K'), p.mod_mass('Glycan:HexNAc2Hex3Fuc1', False),
                                            p.mz('{Glycan:Hex3HexNAc2}NK', charge=2), p.mod_comp('Glycan:HexNAc2Hex3'))
    t['parse'] = lambda W: p.parse(SHAPES[0])
    t['mass'] = lambda W: p.mass(W[A])
    t['mass-b'] = lambda W: p.mass(W[A], charge=1, ion_type='b', monoisotopic=False)
    t['mass-labels'] = lambda W: p.mass(W[A], isotope_mods=W['labels2'])
    t['mz'] = lambda W: p.mz(W[A])
    t['comp'] = lambda W: p.comp(W[A], estimate_delta=True)
    t['comp-labels'] = lambda W: p.comp(W[A], estimate_delta=True, isotope_mods=W['labels'], use_isotope_on_mods=True)
    t['comp_mass'] = lambda W: p.comp_mass(W[A])
    t['condense_to_mass_mods'] = lambda W: p.condense_to_mass_mods(W[A])
    t['mod_mass'] = lambda W: p.mod_mass(W['modlist'])
    t['mod_comp'] = lambda W: p.mod_comp(W['modlist'][0])
    t['chem_mass'] = lambda W: p.chem_mass(W['comp'])
    t['chem_mass-avg'] = lambda W: p.chem_mass(W['comp'], False, 3)
    t['chem_mz'] = lambda W: p.chem_mz(W['comp'], 2)
    t['write_chem_formula'] = lambda W: p.write_chem_formula(W['comp'])
    t['write_chem_formula-hill'] = lambda W: p.write_chem_formula(W['comp'], hill_order=True, precision=2)
    # ---- glycan
    t['glycan_comp'] = lambda W: p.glycan_comp(W['gly'])
    t['glycan_mass'] = lambda W: p.glycan_mass(W['gly'])
    t['write_glycan_formula'] = lambda W: p.write_glycan_formula(W['gly'])
    t['glycan_to_chem'] = lambda W: p.glycan_to_chem(W['gly'])
    # ---- isotope
    t['isotopic_distribution'] = lambda W: p.isotopic_distribution(W['comp'], 5)
    t['isotopic_distribution-neutron'] = lambda W: p.isotopic_distribution(W['comp'], 5, use_neutron_count=True)
    t['isotopic_distribution-zeros'] = lambda W: p.isotopic_distribution(W['comp0'], 5)
    t['isotopic_distribution-zeros-neutron'] = lambda W: p.isotopic_distribution(W['comp0'], 5, use_neutron_count=True)
    t['chem_mass-zeros'] = lambda W: p.chem_mass(W['comp0'])
    t['write_chem_formula-zeros'] = lambda W: p.write_chem_formula(W['comp0'])
    t['apply_isotope_mods_to_composition-zeros'] = lambda W: p.apply_isotope_mods_to_composition(W['comp0'], W['labels2'])
    t['merge_isotopic_distributions'] = lambda W: p.merge_isotopic_distributions(W['dist1'], W['dist2'])
    t['apply_isotope_mods_to_composition'] = lambda W: p.apply_isotope_mods_to_composition(W['comp'], W['labels'])
    t['apply_isotope_mods_to_composition-mods'] = lambda W: p.apply_isotope_mods_to_composition(W['comp'], W['labels2'])
    t['estimate_comp'] = lambda W: p.estimate_comp(1000.0, W['labels'])
    # ---- score
    t['match_spectra'] = lambda W: p.match_spectra(W['theo'], W['smzs'], 0.5, 'th', 'largest', W['ints'])
    t['get_matched_indices'] = lambda W: p.get_matched_indices(W['theo'], W['smzs'], 0.5, 'th')
    t['get_fragment_matches'] = lambda W: p.get_fragment_matches(W['frags'], W['mzs'], W['ints'], 0.5, 'th', 'all')
    t['get_fragment_matches-largest'] = lambda W: p.get_fragment_matches(W['frags'], W['mzs'], W['ints'], 0.5, 'th', 'largest')
    t['get_match_coverage'] = lambda W: p.get_match_coverage(W['matches'])
    t['binomial_score'] = lambda W: p.binomial_score(W['frags'], W['mzs'], 0.5, 'th')
    t['binomial_score-mzlist'] = lambda W: p.binomial_score(W['theo_desc'], W['smzs'], 0.5, 'th')
    t['get_matched_intensity_percentage'] = lambda W: p.get_matched_intensity_percentage(W['matches'], W['ints'])
    t['filter_missing_mono_isotope'] = lambda W: p.filter_missing_mono_isotope(W['matches'])
    t['filter_skipped_isotopes'] = lambda W: p.filter_skipped_isotopes(W['matches'])
    # ---- proforma helpers
    t['create_annotation'] = lambda W: p.create_annotation('PEK', nterm_mods=W['modlist'], internal_mods=W['rawdict'],
                                                           intervals=W['ivlist'], static_mods=W['staticlist'])
    t['create_annotation-raw'] = lambda W: p.create_annotation('PEK', labile_mods=W['rawlist'], intervals=W['ivraw'])
    t['parse_static_mods'] = lambda W: p.parse_static_mods(W['staticlist'])
    t['write_static_mods'] = lambda W: p.write_static_mods(W['staticdict'])
    t['parse_isotope_mods'] = lambda W: p.parse_isotope_mods(W['labels2'])
    t['fix_list_of_mods'] = lambda W: p.fix_list_of_mods(W['rawlist'])
    t['fix_dict_of_mods'] = lambda W: p.fix_dict_of_mods(W['rawdict'])
    t['fix_intervals_input'] = lambda W: p.fix_intervals_input(W['ivraw'])
    t['fix_list_of_list_of_mods'] = lambda W: p.fix_list_of_list_of_mods(W['rawlol'])
    t['are_mods_equal'] = lambda W: p.are_mods_equal(W['modlist'], W['rawlist'])
    t['create_multi_annotation'] = lambda W: p.create_multi_annotation([W[A], W[B]], [True]).serialize()
    # ---- annotation methods (non-inplace)
    t['A.slice'] = lambda W: W[A].slice(1, 3)
    t['A.shift'] = lambda W: W[A].shift(1)
    t['A.shuffle-seed'] = lambda W: W[A].shuffle(5)
    t['A.reverse'] = lambda W: W[A].reverse()
    t['A.reverse-swap'] = lambda W: W[A].reverse(swap_terms=True)
    t['A.sort_residues'] = lambda W: W[A].sort_residues()
    t['A.split'] = lambda W: list(W[A].split())
    t['A.strip'] = lambda W: W[A].strip()
    t['A.condense_static_mods'] = lambda W: W[A].condense_static_mods()
    t['A.copy'] = lambda W: W[A].copy()
    t['A.dict'] = lambda W: W[A].dict()
    t['A.mod_dict'] = lambda W: W[A].mod_dict()
    t['A.count_residues'] = lambda W: W[A].count_residues()
    t['A.serialize_start'] = lambda W: W[A].serialize_start() + '|' + W[A].serialize_middle() + '|' + W[A].serialize_end()
    t['B.find_indices'] = lambda W: W[B].find_indices(W[A])
    t['B.is_subsequence'] = lambda W: W[B].is_subsequence(W[A])
    t['A.permutations'] = lambda W: W[A].permutations(2)
    t['A.product'] = lambda W: W[A].product(1)
    t['A.combinations'] = lambda W: W[A].combinations(2)
    t['A.combinations_with_replacement'] = lambda W: W[A].combinations_with_replacement(2)
    t['A.__eq__'] = lambda W: (W[A] == W[B], W[A] == W[A].copy())
    # ---- the same functions on the peptide given as a string (results must be fresh objects every time)
    S1 = '[Acetyl]-PEK[Oxidation]T[1.5]K/2'
    t['permutations-str'] = lambda W: p.permutations(S1, 2)
    t['combinations-str'] = lambda W: p.combinations(S1, 2)
    t['combinations_with_replacement-str'] = lambda W: p.combinations_with_replacement(S1, 2)
    t['product-str'] = lambda W: p.product(S1, 2)
    t['split-str'] = lambda W: p.split(S1)
    t['get_mods-str'] = lambda W: p.get_mods(S1)
    t['count_residues-str'] = lambda W: p.count_residues(S1)
    t['fragment-str'] = lambda W: p.fragment(S1, ['b', 'y'], [1])
    t['digest-str'] = lambda W: list(p.digest(S1, 'trypsin/P', 1, return_type='annotation-span'))
    t['comp-str'] = lambda W: p.comp(S1, estimate_delta=True)
    t['coverage-str'] = lambda W: p.coverage(S1, ['PEK[Oxidation]', 'T[1.5]K'])
    t['find_subsequence_indices-str'] = lambda W: p.find_subsequence_indices(S1, 'K')
    t['isotopic_distribution-str'] = lambda W: p.isotopic_distribution(W['formula'], 3)
    t['fragment-losses-ammonia'] = lambda W: p.fragment(W[A], ['b', 'y'], [1], losses=W['losses'], ammonia_loss=True,
                                                        max_losses=2)
    t['fragment-losses-water'] = lambda W: p.fragment(W[A], ['b', 'y'], [1], losses=W['losses'], water_loss=True)
    t['Fragmenter-losses-ammonia'] = lambda W: W['fragmenter'].fragment(['b'], [1], losses=W['losses'], ammonia_loss=True,
                                                                       max_losses=2)
    t['apply_variable_mods-nomatch-annotation'] = lambda W: p.apply_variable_mods(W[A], {'[WY]': 'Phospho'}, 1,
                                                                                  return_type='annotation')
    t['apply_static_mods-nomatch-annotation'] = lambda W: p.apply_static_mods(W[A], {'[WY]': 'Phospho'},
                                                                              return_type='annotation')
    # digests that return the whole sequence as one of the peptides
    t['digest-annotation-partial'] = lambda W: list(p.digest(W[A], 'lys-c', complete_digestion=False,
                                                             return_type='annotation'))
    t['digest-annotation-span-nosite'] = lambda W: list(p.digest(W[A], 'asp-n', return_type='annotation-span'))
    t['digest-annotation-mc9'] = lambda W: list(p.digest(W[A], 'trypsin/P', 9, return_type='annotation'))
    t['sequential_digest-annotation-partial'] = lambda W: list(p.sequential_digest(
        W[A], [p.EnzymeConfig(['lys-c'], 0, False, False)], return_type='annotation'))
    t['get_non_enzymatic_sequences-annotation'] = lambda W: list(p.get_non_enzymatic_sequences(W['B'], return_type='annotation'))
    # generators that are not run to exhaustion
    t['A.split-first-only'] = lambda W: next(iter(W[A].split())).serialize()
    t['digest-first-only'] = lambda W: next(iter(p.digest(W[A], 'trypsin/P', return_type='annotation'))).serialize()
    t['get_semi_enzymatic_sequences-first-only'] = lambda W: next(iter(p.get_semi_enzymatic_sequences(W['B'])))
    # a cross-linker (its table row has no average mass: the library derives it)
    t['mod_mass-xlmod-avg-precision'] = lambda W: (p.mod_mass('X:DSS', False, 1), p.mod_mass('XLMOD:02001', False, 0))
    t['mass-xlmod-avg'] = lambda W: (p.mass('PEK[X:DSS]K', monoisotopic=False), p.mod_mass('X:DSS', False))
    t['mass-E'] = lambda W: (p.mass(W['E']), p.mz(W['E'], charge=2), p.mass(W['E'], ion_type='b', charge=1),
                             p.mass(W['E'], monoisotopic=False))
    t['comp-fragment-E'] = lambda W: (p.comp_mass(W['E']), p.fragment(W['E'], ['b', 'y'], [1], return_type='mz'),
                                      p.condense_to_mass_mods(W['E']), W['E'].serialize())
    t['D.__eq__'] = lambda W: (W['D1'] == W['D2'], W['D2'] != W['D1'], W['D1'] == W['D1'].copy())
    t['search-D'] = lambda W: (p.find_subsequence_indices(W['D1'], W['D2']), p.is_subsequence(W['D2'], W['D1']),
                               p.is_subsequence(W['D2'], W['D1'], order=False), p.coverage(W['D1'], [W['D2']]))
    t['D.describe'] = lambda W: (W['D2'].dict(), W['D1'].count_modified_residues(), p.get_mods(W['D2']),
                                 p.apply_static_mods(W['D2'], {'P': 'Acetyl'}))
    t['C.__eq__'] = lambda W: (W['C'] == W['C2'], W['C2'] != W['C'])
    t['find_subsequence_indices-C'] = lambda W: p.find_subsequence_indices(W['C'], W['C2'])
    t['is_subsequence-C'] = lambda W: (p.is_subsequence(W['C2'], W['C']), p.is_subsequence(W['C2'], W['C'], order=False))
    t['coverage-C'] = lambda W: p.coverage(W['C'], [W['C2']])
    t['serialize-C'] = lambda W: (W['C'].serialize(), W['C2'].serialize(), [x.serialize() for x in W['C'].split()])
    # ---- the same quantities asked for with a rounding precision first (a later unrounded call must not see it)
    t['mod_mass-precision'] = lambda W: (p.mod_mass('Phospho', True, 1), p.mod_mass('Oxidation', False, 0),
                                         p.mod_mass(W['modlist'], precision=1), p.mod_mass('Acetyl', precision=2))
    t['mass-precision'] = lambda W: (p.mass(W[A], precision=1), p.mz(W[A], precision=0))
    t['comp_mass-precision'] = lambda W: p.comp_mass(W[A], precision=1)
    t['glycan_mass-precision'] = lambda W: (p.glycan_mass(W['gly'], precision=1), p.glycan_mass('Hex', False, 0))
    t['fragment-precision'] = lambda W: p.fragment(W[A], ['b', 'y'], [1], precision=1, return_type='mz')
    t['condense_to_mass_mods-precision'] = lambda W: p.condense_to_mass_mods(W[A], precision=1)
    t['A.predicates'] = lambda W: (W[A].has_mods(), W[A].contains_sequence_ambiguity(), W[A].count_internal_mods(),
                                   W[A].count_modified_residues(), len(W[A]))
    return t


_labels = {}


def labels():
    if not _labels:
        _labels.update(L(lib.pt()))
    return _labels


# labels known (by reading) to touch caller-owned objects or global state: first/second element of thorough triples
TOUCHY = ['mass-E', 'D.__eq__', 'search-D', 'mass-composite-glycan', 'binomial_score-mzlist', 'mod_mass-precision', 'C.__eq__', 'shared-Fragmenter-ml2', 'fragment-avg', 'apply_isotope_mods_to_composition-str', 'mod_comp-str', 'split', 'A.split', 'permutations', 'A.permutations', 'product', 'combinations', 'combinations_with_replacement',
          'fragment', 'fragment-losses', 'Fragmenter', 'condense_to_mass_mods', 'isotopic_distribution', 'isotopic_distribution-zeros',
          'get_fragment_matches', 'shuffle-seed', 'A.shuffle-seed', 'fix_list_of_mods', 'create_annotation',
          'create_annotation-raw', 'comp_mass', 'count_residues', 'apply_static_mods', 'apply_variable_mods',
          'apply_isotope_mods_to_composition', 'digest-annotation']


def describe(tier):
    return {'labels': len(labels()), 'shapes': SHAPES, 'history_length': 3 if tier == 'thorough' else 2,
            'triples_prefix_alphabet': TOUCHY if tier == 'thorough' else []}


def shards(tier):
    names = list(labels())
    isolated_baselines([(sh, n) for sh in range(len(SHAPES)) for n in names])   # inherited by the worker processes
    _db0()
    out = []
    for sh in range(len(SHAPES)):
        out.append({'shape': sh, 'kind': 'single'})
        for a in names:
            out.append({'shape': sh, 'kind': 'pairs', 'first': a})
        if tier == 'thorough':
            for a in TOUCHY:
                for b in TOUCHY:
                    out.append({'shape': sh, 'kind': 'triples', 'first': a, 'second': b})
    return out


def gen(shard, tier):
    names = list(labels())
    sh = shard['shape']
    if shard['kind'] == 'single':
        for a in names:
            yield {'shape': sh, 'hist': [a]}, 1, True, 1
    elif shard['kind'] == 'pairs':
        for b in names:
            yield {'shape': sh, 'hist': [shard['first'], b]}, 2, True, 2
    else:
        for c in names:
            yield {'shape': sh, 'hist': [shard['first'], shard['second'], c]}, 3, True, 3


def canon(x):
    return lib.jkey(lib.dump(x))


def canon_world(W):
    """snapshot of the shared objects.  Of the Fragmenter only what the caller gave it is observable state (a correct
    implementation may memoise inside the object)."""
    V = dict(W)
    fr = V.pop('fragmenter', None)
    if fr is not None:
        V['fragmenter'] = [getattr(fr, 'annotation', None), getattr(fr, 'monoisotopic', None)]
    return canon(V)


def run_label(fn, W):
    try:
        r = fn(W)
        if hasattr(r, '__next__'):
            r = list(r)
        return 'ok', r
    except Exception as e:  # noqa
        return 'err', e


_baseline = {}


def _compute_baseline(shape, name):
    W = build_world(shape)
    s, r = run_label(labels()[name], W)
    return canon(r) if s == 'ok' else 'EXC:' + type(r).__name__


def isolated_baselines(keys):
    """Reference result of each (shape, label) on a fresh world, each computed in its OWN forked child process, so that
    hidden process-wide state left behind by one label (a module-level cache, a memo) cannot leak into another label's
    reference."""
    import os
    import pickle
    out = {}
    for (shape, name) in keys:
        if (shape, name) in _baseline:
            continue
        r, w = os.pipe()
        pid = os.fork()
        if pid == 0:
            try:
                os.close(r)
                data = pickle.dumps(_compute_baseline(shape, name))
                with os.fdopen(w, 'wb') as f:
                    f.write(data)
            finally:
                os._exit(0)
        os.close(w)
        with os.fdopen(r, 'rb') as f:
            data = f.read()
        os.waitpid(pid, 0)
        _baseline[(shape, name)] = pickle.loads(data)
    return out


def baseline(shape, name):
    if (shape, name) not in _baseline:
        isolated_baselines([(shape, name)])
    return _baseline[(shape, name)]


def mutate(obj, seen, depth=0):
    """deep-edit a result: every list/dict/object reachable from it is changed in place"""
    if depth > 8 or id(obj) in seen or obj is None or isinstance(obj, (str, int, float, bool, bytes)):
        return
    seen.add(id(obj))
    if isinstance(obj, list):
        for x in list(obj):
            mutate(x, seen, depth + 1)
        obj.append('MUTATED')
        obj.reverse()
    elif isinstance(obj, dict):
        for x in list(obj.values()):
            mutate(x, seen, depth + 1)
        obj['MUTATED'] = 'MUTATED'
    elif isinstance(obj, (tuple, set, frozenset)):
        for x in obj:
            mutate(x, seen, depth + 1)
    elif dataclasses.is_dataclass(obj):
        for f in dataclasses.fields(obj):
            if f.name == 'parent_sequence':
                continue  # back-reference (a FragmentMatch holds the caller's Fragment by design); see _holds_argument
            v = getattr(obj, f.name, None)
            mutate(v, seen, depth + 1)
            if isinstance(v, (str, int, float)) or v is None:
                try:
                    setattr(obj, f.name, 'MUTATED' if not isinstance(v, (int, float)) or isinstance(v, bool) else -12345)
                except Exception:
                    pass  # frozen dataclass
    elif hasattr(obj, '__dict__'):
        for k, v in list(vars(obj).items()):
            mutate(v, seen, depth + 1)


_DB0 = []


def _db0():
    if not _DB0:
        _DB0.append(lib.db_digest())
    return _DB0[0]


def _holds_argument(obj, mine, seen, depth=0, path='result'):
    """path of the first object reachable from a result that is one of the caller's annotation objects"""
    if depth > 6 or id(obj) in seen or obj is None or isinstance(obj, (str, int, float, bool, bytes)):
        return None
    seen.add(id(obj))
    if id(obj) in mine:
        return f'{path} is the argument {mine[id(obj)]}'
    if isinstance(obj, (list, tuple, set, frozenset)):
        for i, x in enumerate(obj):
            h = _holds_argument(x, mine, seen, depth + 1, f'{path}[{i}]')
            if h:
                return h
    elif isinstance(obj, dict):
        for k, x in obj.items():
            h = _holds_argument(x, mine, seen, depth + 1, f'{path}[{k!r}]')
            if h:
                return h
    elif dataclasses.is_dataclass(obj):
        for f in dataclasses.fields(obj):
            h = _holds_argument(getattr(obj, f.name, None), mine, seen, depth + 1, f'{path}.{f.name}')
            if h:
                return h
    return None


def check(case, ctx):
    p = lib.pt()
    tab = labels()
    isolated_baselines([(case['shape'], n) for n in case['hist']])   # before the history touches the process
    W = build_world(case['shape'])
    snap0 = canon_world(W)
    rnd0 = random.getstate()
    last = None
    for step, name in enumerate(case['hist']):
        st, r = run_label(tab[name], W)
        ctx.evals += 1
        snap = canon_world(W)
        where = {'history': case['hist'][:step + 1], 'shape': case['shape'], 'call': name, 'step': step}
        if snap != snap0:
            ctx.fail('argument-changed', 'world unchanged', _first_diff(snap0, snap), **where)
            return
        if random.getstate() != rnd0:
            ctx.fail('global-rng-disturbed', 'random.getstate() unchanged', 'changed', **where)
            random.setstate(rnd0)
            return
        got = canon(r) if st == 'ok' else 'EXC:' + type(r).__name__
        exp = baseline(case['shape'], name)
        if got != exp:
            ctx.fail('result-depends-on-history', exp[:300], got[:300], **where)
            return
        last = r if st == 'ok' else None
    # process-wide state: the contents of the modification databases are what they were when the process started
    if lib.db_digest() != _db0():
        ctx.fail('modification-database-changed', 'entries unchanged', 'an entry (mass / composition / name) changed',
                 history=case['hist'], shape=case['shape'])
        _DB0.clear()
        return
    # aliasing: a result never *is*, nor holds (also not as Fragment.parent_sequence), one of the caller's peptide objects
    if last is not None:
        mine = {id(W[k]): k for k in ('A', 'B', 'B2', 'C', 'C2') if k in W}
        held = _holds_argument(last, mine, set())
        if held:
            ctx.fail('result-holds-argument-object', 'a fresh object', held, **where)
            return
    # aliasing: editing the last result must not reach the arguments
    if last is not None:
        mutate(last, set())
        snap = canon_world(W)
        if snap != snap0:
            ctx.fail('result-aliases-argument', 'world unchanged after editing the result', _first_diff(snap0, snap),
                     history=case['hist'], shape=case['shape'], call=case['hist'][-1], step=len(case['hist']) - 1)
            return
        # ... and must not reach later results either (hidden shared state)
        W2 = build_world(case['shape'])
        st, r2 = run_label(tab[case['hist'][-1]], W2)
        got = canon(r2) if st == 'ok' else 'EXC:' + type(r2).__name__
        if got != baseline(case['shape'], case['hist'][-1]):
            ctx.fail('result-aliases-hidden-state', baseline(case['shape'], case['hist'][-1])[:300], got[:300],
                     history=case['hist'], shape=case['shape'], call=case['hist'][-1], step=len(case['hist']) - 1)
    ctx.outcome = [case['shape'], case['hist'][-1], lib.h64(got)]   # distinct outcomes = distinct (shape, label) results


def _first_diff(a, b):
    i = 0
    n = min(len(a), len(b))
    while i < n and a[i] == b[i]:
        i += 1
    return {'before': a[max(0, i - 80):i + 80], 'after': b[max(0, i - 80):i + 80]}


CLASSIFIERS = {}
