"""C12 — global modification rules equal the explicit per-residue form; isotope labels shift by atom count.

Space (a): residue strings over {K,S,M,G} x 0-2 static rules (1-3 targets among residues / N-Term / C-Term, 1-2 mods) x
pre-existing modifications x labels x ion types x use_isotope_on_mods.  The explicit form is produced from the same
abstract peptide by the harness (pmodel.expand_static)."""
import itertools

from mc import lib, pmodel, refmass, refdata, catalogue

CASE_TIMEOUT_S = 300      # wall-clock horizon per state (states of this check bundle many sub-states; generous for loaded machines)
PROPERTY = 'C12'
RULE = ('full product of residue strings of length 1..L over {K,S,M,G} x rule sets (26 single rules: 13 target sets x 2-3 '
        'modification lists; 12 pairs of rules) x pre-existing modification on a targeted residue / terminus x ion types '
        '{p,b,y,c,z}; label layer: strings x {13C,15N,18O,17O,34S,D,T,2H} singly and 9 pairs x modification carrying '
        'residues / termini / unknown position / global rules x use_isotope_on_mods; a state = (string, rules or labels, pre-mods); non-trivial = a rule matches a '
        'target / the peptide contains the labelled element')
ASSUMPTIONS = ['the explicit form is the rule expanded onto every target by the harness, own modifications first',
               'label shifts are evaluated on the neutral species (charge 0/None): n_el counted on residues + terminal/ion '
               'offset composition (+ modification compositions only with use_isotope_on_mods=True)',
               'tolerances: 1e-6 between the two forms, 1e-5 against the NIST label shift']

ALPHA = 'KSMG'
MODLISTS = [[['10', 1]], [['Oxidation', 1]], [['Formula:C2H2O', 1], ['10', 1]]]
TARGET_SETS = [['K'], ['S'], ['M'], ['N-Term'], ['C-Term'], ['K', 'S'], ['K', 'N-Term'], ['M', 'C-Term'],
               ['K', 'S', 'M'], ['N-Term', 'C-Term'], ['K', 'N-Term', 'C-Term'], ['S', 'M'], ['G'],
               ['N-Term', 'K'], ['C-Term', 'K', 'S']]       # a terminus named BEFORE residues
IONS = ['p', 'b', 'y', 'c', 'z']
LABELS = ['13C', '15N', '18O', '17O', '34S', 'D', 'T', '2H']
LABEL_EL = {'13C': 'C', '15N': 'N', '18O': 'O', '17O': 'O', '34S': 'S', 'D': 'H', 'T': 'H', '2H': 'H'}
LABEL_PAIRS = [['13C', '15N'], ['13C', 'D'], ['15N', '18O'], ['18O', '34S'], ['D', '15N'], ['T', '13C'], ['17O', '13C'],
               ['2H', '34S'], ['34S', '13C']]


def rules():
    single = [[{'mods': ml, 'targets': t}] for t in TARGET_SETS for ml in MODLISTS[:2]] + \
             [[{'mods': MODLISTS[2], 'targets': t}] for t in TARGET_SETS[:5]]
    pairs = []
    # every ordered pair of target sets that share a target (the later rule extends what the earlier one put there),
    # plus a few disjoint pairs
    for t1 in TARGET_SETS:
        for t2 in TARGET_SETS:
            if set(t1) & set(t2) and not (len(t1) == 1 and len(t2) == 1 and t1 != t2):
                pairs.append([{'mods': MODLISTS[0], 'targets': t1}, {'mods': MODLISTS[1], 'targets': t2}])
    for (t1, t2) in [(['K'], ['S']), (['K'], ['N-Term']), (['N-Term'], ['C-Term']), (['M'], ['K', 'S'])]:
        pairs.append([{'mods': MODLISTS[0], 'targets': t1}, {'mods': MODLISTS[1], 'targets': t2}])
        pairs.append([{'mods': MODLISTS[1], 'targets': t1}, {'mods': MODLISTS[2], 'targets': t2}])
    return single + pairs


RULES = rules()
# where the modification of the label layer sits (its atoms are relabelled only on request, wherever it is written)
WHERE = ['r0', 'rlast', 'nterm', 'cterm', 'unknown', 'rule-C-Term', 'rule-N-Term', 'rule-first-residue']


def describe(tier):
    return {'L': 4 if tier == 'thorough' else 3, 'long_strings': LONG_SEQS[:2 if tier == 'thorough' else 1], 'rule_sets': len(RULES), 'labels': LABELS, 'label_pairs': LABEL_PAIRS,
            'ion_types': IONS}


def shards(tier):
    L = describe(tier)['L']
    out = []
    for n in range(1, L + 1):
        for pre in itertools.product(ALPHA, repeat=min(n, 2)):
            out.append({'kind': 'static', 'n': n, 'pre': ''.join(pre)})
            out.append({'kind': 'label', 'n': n, 'pre': ''.join(pre)})
    out += [{'kind': 'long', 'i': i, 'n': len(LONG_SEQS[i])} for i in range(len(LONG_SEQS) if tier == 'thorough' else 1)]
    return out


LONG_SEQS = ['KSMGKSMGKSMK', 'MKGGSGGKGSMGKKSM']     # 12 and 16 residues: target positions with two digits, many targets


def gen(shard, tier):
    if shard['kind'] == 'long':
        seq = LONG_SEQS[shard['i']]
        n = len(seq)
        for ri in range(len(RULES)):
            for pre in (None, n - 1, 'samelast', 'n'):
                yield {'kind': 'static', 'seq': seq, 'rule': ri, 'pre': pre}, 1 + (pre is not None), True
        for labs in [[l] for l in LABELS] + LABEL_PAIRS[:3]:
            for mod in (None, 'Oxidation', 'Formula:C2H4OS'):
                for where in (['r0'] if mod is None else ['rlast', 'cterm', 'rule-first-residue']):
                    yield {'kind': 'label', 'seq': seq, 'labels': labs, 'mod': mod, 'where': where}, len(labs) + (mod is not None), True
        return
    n = shard['n']
    for t in itertools.product(ALPHA, repeat=n - len(shard['pre'])):
        seq = shard['pre'] + ''.join(t)
        if shard['kind'] == 'static':
            for ri in range(len(RULES)):
                # 'same0' / 'samelast': that residue already carries the first modification of the first rule itself
                for pre in (None, 'n', 'c', 0, n - 1, 'same0', 'samelast'):
                    if pre in (n - 1, 'samelast') and n == 1:
                        continue
                    if tier != 'thorough' and len(RULES[ri]) > 1 and pre not in (None, 0, 'same0'):
                        continue
                    yield {'kind': 'static', 'seq': seq, 'rule': ri, 'pre': pre}, 1 + (pre is not None), True
        else:
            for labs in [[l] for l in LABELS] + LABEL_PAIRS:
                for mod in (None, 'Oxidation', 'Formula:C2H2O', '10', 'Label:13C(6)', 'Formula:C2H4OS'):
                    for where in (['r0'] if mod is None else WHERE):
                        yield {'kind': 'label', 'seq': seq, 'labels': labs, 'mod': mod, 'where': where}, \
                            len(labs) + (mod is not None), True


def build(case):
    seq = case['seq']
    n = len(seq)
    P = {'seq': seq}
    pre = case.get('pre')
    if pre == 'n':
        P['nterm'] = [['Acetyl', 1]]
    elif pre == 'c':
        P['cterm'] = [['Methyl', 1]]
    elif pre in ('same0', 'samelast'):
        own = RULES[case['rule']][0]['mods'][0]
        P['res'] = [[0 if pre == 'same0' else n - 1, [[own[0], own[1]]]]]
    elif pre is not None:
        P['res'] = [[int(pre), [['1.5', 1]]]]
    return P


def check(case, ctx):
    p = lib.pt()
    seq = case['seq']
    n = len(seq)
    if case['kind'] == 'static':
        P = build(case)
        P['static'] = RULES[case['rule']]
        E = pmodel.expand_static(P)
        s_rule = pmodel.render(P)
        s_exp = pmodel.render(E)
        info = {'rule_form': s_rule, 'explicit_form': s_exp}
        for ion in IONS:
            for z in (None, 2):
                a = lib.call(p.mass, s_rule, charge=z, ion_type=ion)
                b = lib.call(p.mass, s_exp, charge=z, ion_type=ion)
                ctx.evals += 2
                if a[0] != 'ok' or b[0] != 'ok' or not lib.close(a[1], b[1], 1e-6):
                    ctx.fail('mass-rule-vs-explicit', _v(b), _v(a), ion=ion, charge=z, **info)
                a = lib.call(p.mass, s_rule, charge=z, ion_type=ion, monoisotopic=False)
                b = lib.call(p.mass, s_exp, charge=z, ion_type=ion, monoisotopic=False)
                ctx.evals += 2
                if a[0] != 'ok' or b[0] != 'ok' or not lib.close(a[1], b[1], 1e-6):
                    ctx.fail('avg-mass-rule-vs-explicit', _v(b), _v(a), ion=ion, charge=z, **info)
            a = lib.call(p.comp_mass, s_rule, ion)
            b = lib.call(p.comp_mass, s_exp, ion)
            ctx.evals += 2
            if a[0] != 'ok' or b[0] != 'ok' or _nz(a[1][0]) != _nz(b[1][0]) or not lib.close(a[1][1], b[1][1], 1e-9):
                ctx.fail('comp-rule-vs-explicit', _v(b), _v(a), ion=ion, **info)
        # independent anchor: precursor mass of the rule form against the reference calculator
        ref = refmass.ref_mass(P)
        a = lib.call(p.mass, s_rule)
        if a[0] != 'ok' or not lib.close(a[1], ref, 1e-5):
            ctx.fail('mass-rule-vs-reference', ref, _v(a), **info)
        # ... and of the composition path (composition + residual shift) of the rule form and of the explicit form
        for form in (s_rule, s_exp):
            cm = lib.call(lambda: (lambda c_d: p.chem_mass(c_d[0]) + c_d[1])(p.comp_mass(form)))
            ctx.evals += 1
            if cm[0] != 'ok' or not lib.close(cm[1], ref, 1e-4):
                ctx.fail('composition-path-vs-reference', ref, _v(cm), form=form, **info)
        # fragments
        fa = lib.call(p.fragment, s_rule, ['b', 'y', 'a', 'c', 'x', 'z'], [1, 2])
        fb = lib.call(p.fragment, s_exp, ['b', 'y', 'a', 'c', 'x', 'z'], [1, 2])
        ctx.evals += 2
        if fa[0] != 'ok' or fb[0] != 'ok':
            ctx.fail('fragment-raises', _v(fb), _v(fa), **info)
        else:
            ka = sorted((f.ion_type, f.start, f.end, f.charge, round(f.mass, 6)) for f in fa[1])
            kb = sorted((f.ion_type, f.start, f.end, f.charge, round(f.mass, 6)) for f in fb[1])
            if ka != kb:
                diff = [x for x in ka if x not in kb][:4]
                ctx.fail('fragments-rule-vs-explicit', [x for x in kb if x not in ka][:4], diff, **info)
            # the reusable Fragmenter object built from the rule form yields the ions of the explicit form
            fc = lib.call(lambda: p.Fragmenter(s_rule).fragment(['b', 'y', 'a', 'c', 'x', 'z'], [1, 2]))
            ctx.evals += 1
            kc = sorted((f.ion_type, f.start, f.end, f.charge, round(f.mass, 6)) for f in fc[1]) if fc[0] == 'ok' else None
            if kc != kb:
                ctx.fail('Fragmenter-rule-vs-explicit', [x for x in kb if kc is None or x not in kc][:4],
                         _v(fc) if kc is None else [x for x in kc if x not in kb][:4], **info)
        # modified-residue counts
        ca = lib.call(p.count_residues, s_rule)
        cb = lib.call(p.count_residues, s_exp)
        ctx.evals += 2
        if ca[0] != 'ok' or cb[0] != 'ok':
            ctx.fail('count_residues-raises', _v(cb), _v(ca), **info)
        else:
            na = _norm_counter(p, ca[1])
            nb = _norm_counter(p, cb[1])
            if na != nb:
                ctx.fail('count_residues-rule-vs-explicit', nb, na, **info)
        # condensing yields exactly the explicit form
        c = lib.call(p.condense_static_mods, s_rule)
        ctx.evals += 1
        if c[0] != 'ok':
            ctx.fail('condense-raises', s_exp, c[1], **info)
        else:
            st, ann = lib.call(p.parse, c[1])
            d = pmodel.diff(pmodel.expected(E), pmodel.observed(ann)) if st == 'ok' else {'parse': str(ann)}
            if d:
                ctx.fail('condense-vs-explicit', s_exp, c[1], diff=d, **info)
        # one parsed annotation of the rule form used for every question in turn: each answer still equals the explicit
        # form's (count -> condense -> mass -> condense again -> fragment), and the object still writes the rule form
        st, obj = lib.call(p.parse, s_rule)
        if st == 'ok' and cb[0] == 'ok' and b[0] == 'ok':
            r = lib.call(p.count_residues, obj)
            if r[0] != 'ok' or _norm_counter(p, r[1]) != _norm_counter(p, cb[1]):
                ctx.fail('reused-count_residues', _norm_counter(p, cb[1]), _v(r), **info)
            for step in ('first', 'second'):
                r = lib.call(p.condense_static_mods, obj)
                st2, ann = lib.call(p.parse, r[1]) if r[0] == 'ok' else ('err', r[1])
                d = pmodel.diff(pmodel.expected(E), pmodel.observed(ann)) if st2 == 'ok' else {'raises': str(ann)}
                if d:
                    ctx.fail('reused-condense-vs-explicit', s_exp, _v(r), diff=d, step=step, **info)
                m = lib.call(p.mass, obj)
                if m[0] != 'ok' or not lib.close(m[1], ref, 1e-5):
                    ctx.fail('reused-mass-vs-reference', ref, _v(m), step=step, **info)
                r = lib.call(lambda: obj.condense_static_mods(inplace=False).serialize())
                st2, ann = lib.call(p.parse, r[1]) if r[0] == 'ok' else ('err', r[1])
                d = pmodel.diff(pmodel.expected(E), pmodel.observed(ann)) if st2 == 'ok' else {'raises': str(ann)}
                if d:
                    ctx.fail('reused-method-condense-vs-explicit', s_exp, _v(r), diff=d, step=step, **info)
            ctx.evals += 9
            r = lib.call(obj.serialize)
            if r[0] != 'ok' or pmodel.diff(pmodel.expected(P), pmodel.observed(p.parse(r[1]))):
                ctx.fail('reused-object-changed', s_rule, _v(r), **info)
        ctx.outcome = [s_rule, s_exp]
    else:
        labs = case['labels']
        P = {'seq': seq}
        if case['mod'] is not None:
            w = case.get('where', 'r0')
            ml = [[case['mod'], 1]]
            if w == 'r0':
                P['res'] = [[0, ml]]
            elif w == 'rlast':
                P['res'] = [[n - 1, ml]]
            elif w in ('nterm', 'cterm', 'unknown'):
                P[w] = ml
            elif w == 'rule-first-residue':
                P['res'] = None
                P['static'] = [{'mods': ml, 'targets': [seq[0]]}]
                P.pop('res')
            else:
                P['static'] = [{'mods': ml, 'targets': [w[5:]]}]
        s0 = pmodel.render(P)
        P2 = dict(P, isotope=labs)
        s1 = pmodel.render(P2)
        modcomp = catalogue.comp_of(case['mod']) if case['mod'] is not None else None
        if modcomp and case.get('where') == 'rule-first-residue':
            modcomp = {k: v * seq.count(seq[0]) for k, v in modcomp.items()}
        for ion in IONS:
            for on_mods in (False, True):
                base = refmass.addc((refmass.residue_comp(seq), 1),
                                    (refmass.H2O if ion == 'p' else refmass.ION_OFFSET[ion], 1))
                if on_mods and modcomp:
                    base = refmass.addc((base, 1), (modcomp, 1))
                shift = 0.0
                for lab in labs:
                    el = LABEL_EL[lab]
                    shift += base.get(el, 0) * (refdata.ISO[lab] - refdata.MONO[el])
                a = lib.call(p.mass, s1, ion_type=ion, use_isotope_on_mods=on_mods)
                b = lib.call(p.mass, s0, ion_type=ion)
                ctx.evals += 2
                if a[0] != 'ok' or b[0] != 'ok' or not lib.close(a[1] - b[1], shift, 1e-5):
                    ctx.fail('label-shift', shift, (a[1] - b[1]) if a[0] == b[0] == 'ok' else [_v(a), _v(b)], ion=ion,
                             use_isotope_on_mods=on_mods, labelled=s1, unlabelled=s0,
                             atoms={LABEL_EL[lab]: base.get(LABEL_EL[lab], 0) for lab in labs})
                # the composition calculator honours the same option: its composition weighs what mass() reports
                if case['mod'] != '10' and a[0] == 'ok':
                    cc = lib.call(lambda: p.chem_mass(p.comp(s1, ion_type=ion, use_isotope_on_mods=on_mods)))
                    ctx.evals += 1
                    if cc[0] != 'ok' or not lib.close(cc[1], a[1], 1e-4):
                        ctx.fail('label-comp-vs-mass', _v(a), _v(cc), ion=ion, use_isotope_on_mods=on_mods, labelled=s1)
                # the label given as an argument behaves like the label written in the string
                c = lib.call(p.mass, s0, ion_type=ion, isotope_mods=list(labs), use_isotope_on_mods=on_mods)
                ctx.evals += 1
                if a[0] == 'ok' and (c[0] != 'ok' or not lib.close(c[1], a[1], 1e-9)):
                    ctx.fail('label-argument-vs-string', _v(a), _v(c), ion=ion, labelled=s1)
        if case['mod'] is not None and str(case.get('where', '')).startswith('rule'):
            # labelled peptide with a global rule: its fragment ions are those of the labelled explicit form
            s_exp = pmodel.render(pmodel.expand_static(P2))
            fa = lib.call(p.fragment, s1, ['b', 'y', 'c', 'z'], [1])
            fb = lib.call(p.fragment, s_exp, ['b', 'y', 'c', 'z'], [1])
            ctx.evals += 2
            ka = sorted((f.ion_type, f.start, f.end, round(f.mass, 5)) for f in fa[1]) if fa[0] == 'ok' else _v(fa)
            kb = sorted((f.ion_type, f.start, f.end, round(f.mass, 5)) for f in fb[1]) if fb[0] == 'ok' else _v(fb)
            if ka != kb:
                ctx.fail('labelled-fragments-rule-vs-explicit', kb if isinstance(kb, str) else [x for x in kb if x not in ka][:4],
                         ka if isinstance(ka, str) else [x for x in ka if x not in kb][:4], rule_form=s1, explicit_form=s_exp)
        # one parsed object of the labelled peptide asked repeatedly (with other ion types and charges in between): the
        # answers are those for the text and the object still writes the labelled peptide
        st0, obj = lib.call(p.parse, s1)
        if st0 == 'ok':
            want = lib.call(p.mass, s1)
            seq_of_calls = [lambda: p.mass(obj), lambda: p.mass(obj, charge=2, ion_type='b'), lambda: p.comp(obj),
                            lambda: p.mass(obj, use_isotope_on_mods=True), lambda: p.mass(obj)]
            got = [lib.call(c) for c in seq_of_calls]
            ctx.evals += 6
            if want[0] == 'ok' and (got[0][0] != 'ok' or got[-1][0] != 'ok' or not lib.close(got[0][1], want[1], 1e-9) or
                                    not lib.close(got[-1][1], want[1], 1e-9)):
                ctx.fail('labelled-reused-object', _v(want), [_v(got[0]), _v(got[-1])], labelled=s1,
                         note='mass, mass(charge=2, ion b), comp, mass(use_isotope_on_mods), mass on one parsed object')
            st9, s9 = lib.call(obj.serialize)
            if st9 != 'ok' or s9 != p.parse(s1).serialize():
                ctx.fail('labelled-reused-object-changed', p.parse(s1).serialize(), s9, labelled=s1)
        ctx.outcome = [s1]


def _v(x):
    if x[0] == 'ok':
        return x[1]
    return f'{type(x[1]).__name__}: {x[1]}'[:200]


def _nz(c):
    return {k: v for k, v in c.items() if v != 0}


def _norm_counter(p, counter):
    """Counter of serialized one-residue pieces -> sorted list of (residue, sorted mods incl. terminal marks, count)"""
    out = []
    for k, v in counter.items():
        a = p.parse(k)
        o = pmodel.observed(a)
        out.append([o['sequence'], o['internal'], o['nterm'], o['cterm'], o['static'], v])
    return sorted(out, key=repr)


CLASSIFIERS = {}
