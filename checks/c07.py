"""C07 — digested peptides keep their modifications, their mass and their place.

Space (a): proteins over {K,R,P,D,A} x modification slots (residues next to cuts and at both ends, termini, labile,
static, isotope label, intervals between cuts) x protease rules x missed cleavages x semi x five return types, plus the
semi-/non-enzymatic sequence generators.  Oracle: slicing of the abstract peptide."""
import itertools

from mc import lib, pmodel, space, refdata, refmass
from checks import c01, c06, c11

CASE_TIMEOUT_S = 300      # wall-clock horizon per state (states of this check bundle many sub-states; generous for loaded machines)
PROPERTY = 'C07'
RULE = ('deviation-bounded product (<=3 of 10 slots: residue modifications at first / second / middle / last residue, '
        'N-term, C-term, labile, static rule, isotope label, interval) on 14 (quick) / 40 (thorough) proteins over '
        '{K,R,P,D,A} of length 1..7 chosen so that every rule cuts at first / interior / last positions x 6 rules x mc 0..3 '
        'x semi x 5 return types, and the four semi-/non-enzymatic generators; full product: every string of length 1..4 / '
        '1..6 over {K,R,P,D,A}, plain and with every residue tagged by its own position; non-trivial = at least one slot set')
ASSUMPTIONS = ['the span list itself is C06\'s subject; here every returned peptide is compared with the slice of the '
               'abstract protein for its span', 'mass-conservation clause on proteins whose modifications are bound to a '
               'position (no labile modification, no N-Term/C-Term static rule), labels 13C/15N only',
               'states whose spans cut strictly inside an interval are skipped (outside the quantifier)']

RULES = ['trypsin', 'trypsin/P', 'lys-c', 'lys-n', 'asp-n', '([KR])']
PROTEINS_Q = ['K', 'AK', 'KA', 'KP', 'DK', 'AKA', 'KAK', 'RKD', 'AKPR', 'KDKA', 'DAKR', 'AKRDA', 'KAAKP', 'ADKARK',
              'AKAKAK', 'KAKAKAR',   # tandem repeats: a missed-cleavage peptide overlaps its own next occurrence
              'AKADPRAKAADKR']       # 13 residues: offsets, interval bounds and modified positions with two digits
AXES = ['r0', 'r1', 'rmid', 'rlast', 'nterm', 'cterm', 'labile', 'static', 'isotope', 'iv']


def proteins(tier):
    if tier != 'thorough':
        return PROTEINS_Q
    out = list(PROTEINS_Q)
    for n in (3, 4):
        for t in itertools.product('KRPDA', repeat=n):
            s = ''.join(t)
            if ('K' in s or 'R' in s) and s not in out and len(out) < 60 and s.count('A') <= 1:
                out.append(s)
    return out[:40] + ['ADKARKD']


def values_at(axis, level, n):
    if axis in ('r0', 'r1', 'rmid', 'rlast'):
        tag = {'r0': '1', 'r1': '2', 'rmid': '3', 'rlast': '4'}[axis]
        return [[[tag, 1]], [['Oxidation', 1], [tag, 2]]] if level <= 2 else [[[tag, 1]]]
    if axis == 'nterm':
        return [[['Acetyl', 1]]]
    if axis == 'cterm':
        return [[['Amidated', 1]]]
    if axis == 'labile':
        return [[['Glycan:Hex', 1]]]
    if axis == 'static':
        return [[{'mods': [['Carbamidomethyl', 1]], 'targets': ['K']}], [{'mods': [['10', 1]], 'targets': ['N-Term']}],
                [{'mods': [['Oxidation', 1]], 'targets': ['D', 'A']}],
                # two rules carrying the same modification text stay two rules
                [{'mods': [['10', 1]], 'targets': ['K']}, {'mods': [['10', 1]], 'targets': ['D']}]]
    if axis == 'isotope':
        return [['13C'], ['15N']]
    if axis == 'iv':
        out = []
        for a in range(0, n):
            for b in range(a + 1, n + 1):
                if b - a <= 3:
                    out.append([[a, b, True, [['7', 1]]]])
                    out.append([[a, b, True, None]])            # ambiguity interval without a modification
                    if level <= 1:
                        out.append([[a, b, False, [['7', 1]]]])
        return out[:24] if level <= 1 else out[:16]
    raise KeyError(axis)


def describe(tier):
    return {'proteins': proteins(tier), 'all_strings': 'every string of length 1..%d over {K,R,P,D,A}, unmodified and with every '
            'residue tagged by its position + both termini modified' % (6 if tier == 'thorough' else 4), 'rules': RULES, 'deviation_bound': 3, 'axes': AXES, 'mc': [0, 1, 2, 3] if tier == 'thorough' else [0, 1, 2]}


def axes_for(n):
    ax = list(AXES)
    if n < 4:
        ax.remove('rmid')
    if n < 3:
        ax.remove('r1')
    if n < 2:
        ax.remove('rlast')
    return ax


def shards(tier):
    out = []
    for n in range(1, (6 if tier == 'thorough' else 4) + 1):
        for pre in itertools.product('KRPDA', repeat=min(n, 2)):
            out.append({'kind': 'all', 'n': n, 'pre': ''.join(pre), 'k': 0})
    out.append({'kind': 'dense', 'k': 3})
    for seq in proteins(tier):
        for sh in space.dev_shards(axes_for(len(seq)), 3 if len(seq) <= 5 or tier == 'thorough' else 2):
            sh['seq'] = seq
            out.append(sh)
    return out


def gen(shard, tier):
    if shard.get('kind') == 'dense':
        # densely modified longer proteins: EVERY residue tagged by its own position (5..13 modified residues), alone and
        # with termini, a label and a rule
        for seq in [q for q in proteins(tier) if len(q) >= 5]:
            yield {'seq': seq, 'slots': {'resall': True}, 'mcs': [0, 1, 2]}, 3, True
            yield {'seq': seq, 'slots': {'resall': True, 'nterm': [['Acetyl', 1]], 'cterm': [['Amidated', 1]],
                                         'isotope': ['13C']}, 'mcs': [0, 1]}, 3, True
            yield {'seq': seq, 'slots': {'resall': True, 'static': [{'mods': [['10', 1]], 'targets': ['N-Term']}],
                                         'labile': [['Glycan:Hex', 1]]}, 'mcs': [0, 1]}, 3, True
        return
    if shard.get('kind') == 'all':
        # full product: every protein of length n over {K,R,P,D,A}, unmodified and with EVERY residue tagged by its own
        # position plus both termini modified
        for t in itertools.product('KRPDA', repeat=shard['n'] - len(shard['pre'])):
            seq = shard['pre'] + ''.join(t)
            yield {'seq': seq, 'slots': {}, 'mcs': [0, 1, 2]}, 0, False
            yield {'seq': seq, 'slots': {'resall': True, 'nterm': [['Acetyl', 1]], 'cterm': [['Amidated', 1]]},
                   'mcs': [0, 1, 2]}, 3, True
        return
    seq = shard['seq']
    n = len(seq)
    for slots in space.dev_states(shard, lambda a, lv: values_at(a, lv, n)):
        yield {'seq': seq, 'slots': slots, 'mcs': [0, 1, 2, 3] if tier == 'thorough' else [0, 1, 2]}, shard['k'], shard['k'] > 0


def build(seq, slots):
    n = len(seq)
    P = {'seq': seq}
    res = {}
    for k, v in slots.items():
        if k == 'r0':
            res.setdefault(0, []).extend(v)
        elif k == 'r1':
            res.setdefault(1, []).extend(v)
        elif k == 'rmid':
            res.setdefault(n // 2, []).extend(v)
        elif k == 'rlast':
            res.setdefault(n - 1, []).extend(v)
        elif k == 'resall':
            for i in range(n):       # every residue carries its own position as a tag: any misplacement is visible
                res.setdefault(i, []).append([str(i + 1), 1])
        else:
            P[k] = v
    if res:
        P['res'] = [[i, res[i]] for i in sorted(res)]
    return P


def _reversed_fields(d):
    if d.get('internal_mods'):
        d['internal_mods'] = {k: d['internal_mods'][k] for k in sorted(d['internal_mods'], reverse=True)}
    if d.get('intervals'):
        d['intervals'] = list(reversed(d['intervals']))
    return d


FIELDS = ['sequence', 'internal', 'nterm', 'cterm', 'intervals', 'static', 'isotope']


def expected_piece(P, a, b):
    Q = c11.m_slice(P, a, b)
    return {f: pmodel.expected(Q)[f] for f in FIELDS}


def check(case, ctx):
    p = lib.pt()
    P = build(case['seq'], case['slots'])
    s = pmodel.render(P)
    n = len(P['seq'])
    has_iv = bool(P.get('iv'))
    position_bound = not P.get('labile') and not any(t in ('N-Term', 'C-Term') for r in (P.get('static') or [])
                                                       for t in r['targets'])
    st, m_prot = lib.call(p.mass, s)
    npep = 0

    def piece_checks(span, pep_str, pep_ann, what):
        a, b = span[0], span[1]
        if c11.cuts_inside(P, a, b):
            return
        e = expected_piece(P, a, b)
        if pep_ann is not None:
            d = pmodel.diff(e, pmodel.observed(pep_ann))
            if d:
                ctx.fail('peptide-annotation', pmodel.render(c11.m_slice(P, a, b)), pep_ann.serialize(), span=list(span),
                         text=s, what=what, diff=d)
        if pep_str is not None:
            stp, pa = lib.call(p.parse, pep_str)
            if stp != 'ok':
                ctx.fail('peptide-string-unparsable', pmodel.render(c11.m_slice(P, a, b)), pep_str, span=list(span), text=s,
                         what=what)
                return
            d = pmodel.diff(e, pmodel.observed(pa))
            if d:
                ctx.fail('peptide-string', pmodel.render(c11.m_slice(P, a, b)), pep_str, span=list(span), text=s,
                         what=what, diff=d)
            if pep_ann is not None and not (pa == pep_ann):
                ctx.fail('string-vs-annotation', pep_ann.serialize(), pep_str, span=list(span), text=s, what=what)

    # the same protein as an annotation object whose residue-modification map was filled in reverse order
    st_r, a_rev = lib.call(lambda: p.create_annotation(**_reversed_fields(p.parse(s).dict())))
    for rule in RULES:
        sites = c06.ref_sites(P['seq'], rule)
        if st_r == 'ok':
            for mc in (0, 1):
                x1 = lib.call(lambda: list(p.digest(s, rule, missed_cleavages=mc)))
                x2 = lib.call(lambda: list(p.digest(a_rev, rule, missed_cleavages=mc)))
                ctx.evals += 2
                if x1[0] != x2[0] or (x1[0] == 'ok' and x1[1] != x2[1]):
                    ctx.fail('annotation-input-order', x1[1], x2[1], call=['digest', s, rule, mc],
                             note='annotation built with internal_mods inserted in descending order')
        for mc in case.get('mcs', (0, 1, 2, 3)):
            for semi in (False, True):
                if semi and (has_iv or mc > 1):
                    continue
                kw = dict(missed_cleavages=mc, semi=semi)
                st1, spans = lib.call(lambda: list(p.digest(s, rule, return_type='span', **kw)))
                ctx.evals += 1
                if st1 != 'ok':
                    ctx.fail('digest-raises', 'spans', spans, call=['digest', s, rule, kw])
                    continue
                spans = [tuple(x) for x in spans]
                outs = {}
                for rt in ('str', 'annotation', 'str-span', 'annotation-span'):
                    st2, o = lib.call(lambda: list(p.digest(s, rule, return_type=rt, **kw)))
                    ctx.evals += 1
                    if st2 != 'ok' or len(o) != len(spans):
                        ctx.fail('return-type', len(spans), o if st2 != 'ok' else len(o), call=['digest', s, rule, kw, rt])
                        o = None
                    outs[rt] = o
                for i, sp in enumerate(spans):
                    npep += 1
                    if outs['str'] is not None and outs['annotation'] is not None:
                        piece_checks(sp, outs['str'][i], outs['annotation'][i], [rule, mc, semi])
                    if outs['str-span'] is not None:
                        x, y = outs['str-span'][i]
                        if tuple(y) != sp or (outs['str'] is not None and x != outs['str'][i]):
                            ctx.fail('str-span-differs', [outs['str'][i] if outs['str'] else None, sp], [x, tuple(y)],
                                     call=['digest', s, rule, kw])
                    if outs['annotation-span'] is not None:
                        x, y = outs['annotation-span'][i]
                        if tuple(y) != sp or (outs['annotation'] is not None and
                                              pmodel.observed(x) != pmodel.observed(outs['annotation'][i])):
                            ctx.fail('annotation-span-differs', sp, [x.serialize(), tuple(y)], call=['digest', s, rule, kw])
                    # found again at its offset
                    if outs['str'] is not None and not c11.cuts_inside(P, sp[0], sp[1]) and mc <= 1 and not semi:
                        st3, idx = lib.call(p.find_subsequence_indices, s, outs['str'][i])
                        ctx.evals += 1
                        if st3 != 'ok' or sp[0] not in idx:
                            ctx.fail('not-found-at-offset', sp[0], idx, peptide=outs['str'][i], text=s, span=list(sp))
                # the peptides again through span_to_sequence on the protein TEXT, one span after the other (each call
                # sees the whole protein), and the digest of the text afterwards is the digest from before
                if mc == 0 and not semi and rule in RULES[:2] and outs['str'] is not None:
                    for i, sp in enumerate(spans):
                        if c11.cuts_inside(P, sp[0], sp[1]):
                            continue
                        st7, x7 = lib.call(p.span_to_sequence, s, sp)
                        ctx.evals += 1
                        if st7 != 'ok' or x7 != outs['str'][i]:
                            ctx.fail('span_to_sequence-differs', outs['str'][i], x7, span=list(sp), text=s, rule=rule)
                            break
                    st8, again = lib.call(lambda: list(p.digest(s, rule, return_type='str', **kw)))
                    if st8 != 'ok' or again != outs['str']:
                        ctx.fail('digest-after-span_to_sequence', outs['str'], again, text=s, rule=rule)
                # mass conservation of the zero-missed-cleavage peptides
                if mc == 0 and not semi and position_bound and st == 'ok' and outs['str'] is not None and \
                        not any(c11.cuts_inside(P, a, b) for a, b, _ in spans) and spans:
                    tot = 0.0
                    ok = True
                    for x in outs['str']:
                        stm, mx = lib.call(p.mass, x)
                        ctx.evals += 1
                        if stm != 'ok':
                            ok = False
                            break
                        tot += mx
                    k = len(spans)
                    expm = m_prot + (k - 1) * refdata.comp_mass(refmass.H2O, True)
                    if not ok or not lib.close(tot, expm, 1e-6):
                        ctx.fail('mass-conservation', expm, tot if ok else 'mass raised', text=s, rule=rule,
                                 peptides=outs['str'])
    # semi-/non-enzymatic generators over the whole sequence
    if not has_iv:
        for fname, spans_fn in (('get_left_semi_enzymatic_sequences', lambda: [(0, c) for c in range(n - 1, 0, -1)]),
                                ('get_right_semi_enzymatic_sequences', lambda: [(c, n) for c in range(1, n)]),
                                ('get_non_enzymatic_sequences', None), ('get_semi_enzymatic_sequences', None)):
            st1, sp = lib.call(lambda: list(getattr(p, fname)(s, return_type='span')))
            st2, ss = lib.call(lambda: list(getattr(p, fname)(s, return_type='str')))
            st3, sa = lib.call(lambda: list(getattr(p, fname)(s, return_type='annotation')))
            ctx.evals += 3
            if st1 != 'ok' or st2 != 'ok' or st3 != 'ok' or not (len(sp) == len(ss) == len(sa)):
                ctx.fail('generator-raises', None, [sp, ss, sa], call=[fname, s])
                continue
            # the paired return types describe the same peptides, in the same order
            for rt, single in (('str-span', ss), ('annotation-span', sa)):
                st4, pr = lib.call(lambda: list(getattr(p, fname)(s, return_type=rt)))
                ctx.evals += 1
                if st4 != 'ok' or len(pr) != len(sp):
                    ctx.fail('generator-paired-return-type', len(sp), pr if st4 != 'ok' else len(pr), call=[fname, s, rt])
                    continue
                for (x, y), span, one in zip(pr, sp, single):
                    same = (x == one) if rt == 'str-span' else (pmodel.observed(x) == pmodel.observed(one))
                    if tuple(y) != tuple(span) or not same:
                        ctx.fail('generator-paired-return-type', [one if rt == 'str-span' else one.serialize(), list(span)],
                                 [x if rt == 'str-span' else x.serialize(), list(y)], call=[fname, s, rt])
                        break
            if spans_fn is not None and sorted((x[0], x[1]) for x in sp) != sorted(spans_fn()):
                ctx.fail('generator-spans', sorted(spans_fn()), sorted((x[0], x[1]) for x in sp), call=[fname, s])
            for span, x, y in zip(sp, ss, sa):
                npep += 1
                piece_checks(tuple(span), x, y, fname)
    # one parsed protein object, digested, edited by an explicit editor, digested again: the second digest describes the
    # edited protein (= the digest of a freshly parsed copy of it)
    res_idx = {int(i) for i, _ in P.get('res', [])}
    free = [j for j in range(n) if j not in res_idx and not c11.cuts_inside(P, j, j + 1)]
    if free and not has_iv:
        for rule in RULES[:2]:
            for edit in ('add', 'pop'):
                st0, obj = lib.call(p.parse, s)
                if st0 != 'ok' or (edit == 'pop' and not res_idx):
                    continue
                lib.call(lambda: list(p.digest(obj, rule, missed_cleavages=1, return_type='str')))
                lib.call(lambda: obj.slice(0, n))
                if edit == 'add':
                    lib.call(obj.add_internal_mod, free[0], 'Methyl')
                else:
                    lib.call(obj.pop_internal_mod, min(res_idx))
                a1 = lib.call(lambda: list(p.digest(obj, rule, missed_cleavages=1, return_type='str')))
                a2 = lib.call(lambda: list(p.digest(p.parse(obj.serialize()), rule, missed_cleavages=1, return_type='str')))
                ctx.evals += 3
                if a1[0] != a2[0] or (a1[0] == 'ok' and a1[1] != a2[1]):
                    ctx.fail('digest-after-edit', a2[1], a1[1], text=s, rule=rule, edit=edit,
                             edited=obj.serialize() if a2[0] == 'ok' else None)
    # one parsed protein object that was first asked for its mass, composition, fragments and a copy (queries): the digest
    # of that object equals the digest of the text
    st0, obj = lib.call(p.parse, s)
    if st0 == 'ok':
        for q in (lambda: p.mass(obj), lambda: p.comp_mass(obj), lambda: p.mass(obj, monoisotopic=False),
                  lambda: obj.copy(), lambda: p.fragment(obj, 'b', 1), lambda: obj.serialize()):
            lib.call(q)
        for rule in RULES[:1] + RULES[3:4]:
            a1 = lib.call(lambda: list(p.digest(obj, rule, missed_cleavages=1, return_type='str-span')))
            a2 = lib.call(lambda: list(p.digest(s, rule, missed_cleavages=1, return_type='str-span')))
            ctx.evals += 2
            if a1[0] != a2[0] or (a1[0] == 'ok' and a1[1] != a2[1]):
                ctx.fail('digest-after-queries', a2[1], a1[1], text=s, rule=rule,
                         note='mass, comp_mass, copy, fragment, serialize were called on the annotation object first')
    ctx.sub_states = npep
    ctx.sub_nontrivial = npep
    ctx.outcome = s


CLASSIFIERS = {}
