"""C04 — fragmentation enumerates every ion once and agrees with the mass calculator.

Layers: (types) every peptide up to length L over {S,K,G,M} x ion-type sets; (pairs) every pair of ion types;
(options) deviation-bounded option grid; (shape) modified peptides; (subsets, thorough) every non-empty subset of the
16 ion types.  Oracle: own span/charge/isotope/loss enumeration; per-ion agreement with pt.mass / pt.mz on the ion's own
sequence; projections of the other return types; Fragmenter == fragment."""
import itertools
import re as stdre

from mc import lib, pmodel, refmass
from checks import c01

CASE_TIMEOUT_S = 300      # wall-clock horizon per state (states of this check bundle many sub-states; generous for loaded machines)
PROPERTY = 'C04'
RULE = ('(types) full product of peptides of length 1..L over {S,K,G,M} x {16 single ion types, 4 classes, all 16}; (pairs) '
        'all 120 pairs of ion types on 2 peptides; (options) deviation<=2 over charge lists, isotope lists, 8 loss '
        'configurations, max_losses 1..3, average mode, precision {0,3,6} on 4 peptides x 2 ion sets; (shape) peptides of '
        'length<=3 with <=2 of N-term / C-term / residue / static / isotope-label modifications; (subsets, thorough) all '
        '65535 ion-type subsets on SK and KSG; every state also checks the 5 projected return types and the Fragmenter '
        'object twice; non-trivial = every state')
ASSUMPTIONS = ['an ion is identified by (type, start, end, charge, isotope, loss rounded to 1e-6)',
               'per-ion agreement tolerance 1e-6 (10^-p under precision=p; m/z may be rounded twice)',
               'custom losses are regular expressions over the unmodified fragment sequence (as documented)']

ALL = refmass.ALL_ION_TYPES
FWD, BWD, INT = ['a', 'b', 'c'], ['x', 'y', 'z'], ['ax', 'ay', 'az', 'bx', 'by', 'bz', 'cx', 'cy', 'cz']
WATER = ['[STED]', -18.01056]
AMMONIA = ['[RKNQ]', -17.02655]
LOSS_CFG = [
    {}, {'water_loss': True}, {'ammonia_loss': True}, {'water_loss': True, 'ammonia_loss': True},
    {'losses': [['K', -10.0]]}, {'losses': [['K', -10.0], ['K', -3.5]]}, {'losses': ['S', -1.25]},
    {'losses': [['[SK]', -10.0]], 'water_loss': True},
    # rules whose match depends on the string they are applied to: anchors, look-ahead, two residues
    {'losses': [['^S', -1.5], ['K$', -2.5]]}, {'losses': [['S(?=K)', -3.0], ['KK', -4.0]]},
    # two rules with the same mass: their sites add up
    {'losses': [['S', -10.0], ['K', -10.0]]}, {'losses': [['K', -18.01056]], 'water_loss': True},
]


def describe(tier):
    th = tier == 'thorough'
    return {'L': 5 if th else 4, 'ion_types': ALL, 'loss_configs': LOSS_CFG, 'subsets_peptides': ['SK', 'KSG'] if th else []}


def shards(tier):
    d = describe(tier)
    out = []
    for n in range(1, d['L'] + 1):
        for pre in itertools.product('SKGM', repeat=min(n, 2)):
            out.append({'kind': 'types', 'n': n, 'pre': ''.join(pre)})
    out += [{'kind': 'long', 'seq': s} for s in (('SKGMKSGMK', 'MSKGKSMGKSKM') if th_(tier) else ('MSKGKSMGKSKM',))]
    out += [{'kind': 'pairs', 'seq': s} for s in ('KSGM', 'SKG')]
    out += [{'kind': 'options', 'seq': s, 'ions': ions} for s in ('SK', 'KSG', 'SKGM', 'MSKK')
            for ions in (['b', 'y'], ['a', 'x', 'by', 'i'])]
    for n in (1, 2, 3):
        for t in itertools.product('SKM', repeat=n):
            out.append({'kind': 'shape', 'seq': ''.join(t)})
    out += [{'kind': 'history', 'seq': s_, 'first': i} for s_ in ('SKSM', '[Acetyl]-KSK') for i in range(len(HIST_CFG))]
    if tier == 'thorough':
        for s in d['subsets_peptides']:
            for hi in range(256):
                out.append({'kind': 'subsets', 'seq': s, 'hi': hi})
    return out


# option configurations for histories on one Fragmenter object (each differs from the first in one or two arguments)
HIST_CFG = [
    {'ion_types': ['b', 'y'], 'charges': [1]},
    {'ion_types': ['b', 'y'], 'charges': [1], 'water_loss': True},
    {'ion_types': ['b', 'y'], 'charges': [1], 'water_loss': True, 'max_losses': 2},
    {'ion_types': ['b', 'y'], 'charges': [1], 'water_loss': True, 'max_losses': 3},
    {'ion_types': ['b', 'y'], 'charges': [2]},
    {'ion_types': ['b', 'y'], 'charges': [1], 'isotopes': [0, 1]},
    {'ion_types': ['b', 'y'], 'charges': [1], 'precision': 2},
    {'ion_types': ['a', 'by', 'i'], 'charges': [1]},
    {'ion_types': ['b', 'y'], 'charges': [1], 'ammonia_loss': True},
    {'ion_types': ['b', 'y'], 'charges': [1], 'losses': [('K', -10.0)]},
    {'ion_types': ['b', 'y'], 'charges': [1], 'losses': [('K', -10.0)], 'max_losses': 2},
    {'ion_types': ['b', 'y'], 'charges': [1], 'return_type': 'mz-label'},
    {'ion_types': ['b', 'y'], 'charges': [1], 'return_type': 'mass'},
]
CHARGE_LISTS = [[1], [2], [3], [4], [1, 2], [1, 3], [2, 4], [3, 4], [1, 2, 3, 4]]
ISO_LISTS = [[0], [1], [3], [0, 1], [0, 2], [1, 3], [0, 1, 2, 3]]
SHAPE_AXES = ['nterm', 'cterm', 'r0', 'rlast', 'static', 'isotope', 'charge', 'avg']


def shape_values(axis, level):
    if axis in ('nterm', 'cterm', 'r0', 'rlast'):
        # Dimethyl / Cation:K / Deamidated: names containing letters that the loss patterns ([STED], [RKNQ], K) match
        return [[['15.995', 1]], [['Acetyl', 1]], [['Formula:C2H2O', 2]], [['Dimethyl', 1]], [['Cation:K', 1]],
                [['Deamidated', 1]]] if level <= 1 else [[['15.995', 1]], [['Dimethyl', 1]], [['Cation:K', 1]]]
    if axis == 'static':
        return [[{'mods': [['10', 1]], 'targets': ['K']}], [{'mods': [['Oxidation', 1]], 'targets': ['M', 'S']}],
                [{'mods': [['10', 1]], 'targets': ['N-Term']}], [{'mods': [['10', 1]], 'targets': ['C-Term']}]]
    if axis == 'isotope':
        return [['13C'], ['15N'], ['13C', '15N'], ['D'], ['18O']] if level <= 1 else [['13C'], ['D']]
    if axis == 'charge':   # a charge written in the string must not leak into the ions (fragment charges are explicit)
        return [[2, None, None], [3, None, None]] if level <= 1 else [[2, None, None]]   # adduct lists: outside C04's quantifier
    if axis == 'avg':
        return [True]
    raise KeyError(axis)


def th_(tier):
    return tier == 'thorough'


def gen(shard, tier):
    kind = shard['kind']
    if kind == 'long':
        # the upper end of the quantifier (length 9 / 12): every ion class, two charges, losses, both mass modes; plain,
        # with both termini modified and with a labelled + rule-carrying form
        seq = shard['seq']
        for ions in ([FWD, BWD, INT, ['i'], ALL]):
            yield {'seq': seq, 'slots': {}, 'ions': ions, 'opts': {'charges': [1, 2], 'isotopes': [0], 'loss': 3,
                                                                   'max_losses': 1}, 'proj': ions == ALL}, len(seq), True
        yield {'seq': seq, 'slots': {'nterm': [['Acetyl', 1]], 'cterm': [['15.995', 1]], 'rlast': [['Dimethyl', 1]]},
               'ions': FWD + BWD, 'opts': {'charges': [1, 3], 'loss': 1, 'max_losses': 2}}, len(seq) + 3, True
        yield {'seq': seq, 'slots': {'isotope': ['13C'], 'static': [{'mods': [['10', 1]], 'targets': ['K']}]},
               'ions': ['b', 'y', 'by'], 'opts': {'charges': [2], 'avg': True}}, len(seq) + 2, True
        return
    if kind == 'types':
        n = shard['n']
        sets = [[t] for t in ALL] + [FWD, BWD, INT, ['i'], ALL]
        for t in itertools.product('SKGM', repeat=n - len(shard['pre'])):
            seq = shard['pre'] + ''.join(t)
            for ions in sets:
                yield {'seq': seq, 'slots': {}, 'ions': ions, 'opts': {'charges': [1, 2], 'isotopes': [0, 1],
                                                                       'loss': 3, 'max_losses': 2}, 'proj': ions == ALL}, n, True
    elif kind == 'pairs':
        for a, b in itertools.combinations(ALL, 2):
            yield {'seq': shard['seq'], 'slots': {}, 'ions': [a, b], 'opts': {'charges': [1], 'isotopes': [0], 'loss': 1,
                                                                              'max_losses': 1}, 'light': True}, 2, True
    elif kind == 'options':
        axes = {'charges': CHARGE_LISTS[1:], 'isotopes': ISO_LISTS[1:], 'loss': list(range(1, len(LOSS_CFG))),
                'max_losses': [2, 3], 'avg': [True], 'precision': [0, 3, 6], 'scalar': [True]}
        names = list(axes)
        for k in (0, 1, 2):
            for sub in itertools.combinations(names, k):
                for vals in itertools.product(*[axes[a] for a in sub]):
                    o = dict(zip(sub, vals))
                    if 'max_losses' in o and 'loss' not in o:
                        o['loss'] = 3
                    yield {'seq': shard['seq'], 'slots': {}, 'ions': shard['ions'], 'opts': o, 'proj': k <= 1}, k, True
    elif kind == 'shape':
        seq = shard['seq']
        n = len(seq)
        axes = [a for a in SHAPE_AXES if not (a == 'rlast' and n < 2)]
        for k in (1, 2):
            for sub in itertools.combinations(axes, k):
                if sub == ('avg',):
                    continue
                for vals in itertools.product(*[shape_values(a, k) for a in sub]):
                    slots = dict(zip(sub, vals))
                    opts = {'charges': [1, 2], 'loss': 7 if k == 2 else 3, 'max_losses': 2}
                    if slots.pop('avg', None):
                        opts['avg'] = True
                    yield {'seq': seq, 'slots': slots, 'ions': ['a', 'b', 'c', 'x', 'y', 'z', 'by', 'ay', 'i'],
                           'opts': opts, 'proj': k == 1}, k, True
    elif kind == 'history':
        i = shard['first']
        m = len(HIST_CFG)
        for j in range(m):
            yield {'kind': 'history', 'seq': shard['seq'], 'hist': [i, j]}, 2, True, 2
        if tier == 'thorough':
            for j in range(m):
                for k2 in range(m):
                    yield {'kind': 'history', 'seq': shard['seq'], 'hist': [i, j, k2]}, 3, True, 3
    else:
        for lo in range(256):
            bits = (shard['hi'] << 8) | lo
            if bits == 0:
                continue
            ions = [ALL[i] for i in range(16) if bits >> i & 1]
            yield {'seq': shard['seq'], 'slots': {}, 'ions': ions, 'opts': {'charges': [1], 'isotopes': [0], 'loss': 0,
                                                                            'max_losses': 1}, 'light': True}, len(ions), True


# ---- reference enumeration ---------------------------------------------------------------------------------------
def ref_spans(t, n):
    if t in FWD:
        return [(0, i) for i in range(1, n + 1)]
    if t in BWD:
        return [(i, n) for i in range(0, n)]
    if t in INT:
        return [(i, j) for i in range(1, n) for j in range(i + 1, n)]
    return [(i, i + 1) for i in range(n)]


def loss_list(cfg):
    ls = []
    raw = cfg.get('losses')
    if raw is not None:
        ls = [raw] if not isinstance(raw[0], list) else list(raw)
    ls = [list(x) for x in ls]
    if cfg.get('water_loss'):
        ls.append(WATER)
    if cfg.get('ammonia_loss'):
        ls.append(AMMONIA)
    return ls


def ref_losses(sub, losses, max_losses):
    app = []
    for rx, val in losses:
        app += [val] * len(stdre.findall(rx, sub))
    out = {0.0}
    for k in range(1, max_losses + 1):
        for c in itertools.combinations(app, k):
            out.add(round(sum(c), 6))
    return out


def _sig(L):
    return [(f.ion_type, f.start, f.end, f.charge, f.isotope, f.loss, f.mass, f.mz, f.sequence) if hasattr(f, 'ion_type')
            else (tuple(f) if isinstance(f, (list, tuple)) else f) for f in L]


def check_history(case, ctx):
    """operation sequence on ONE Fragmenter object: every call must equal a fresh fragment() with the same arguments"""
    import copy
    p = lib.pt()
    fr = p.Fragmenter(case['seq'], True)
    for step, ci in enumerate(case['hist']):
        cfg = copy.deepcopy(HIST_CFG[ci])
        st, got = lib.call(lambda: fr.fragment(**copy.deepcopy(cfg)))
        st2, exp = lib.call(lambda: p.fragment(case['seq'], monoisotopic=True, **copy.deepcopy(cfg)))
        ctx.evals += 2
        if st != st2 or (st == 'ok' and _sig(got) != _sig(exp)):
            ctx.fail('fragmenter-history', len(exp) if st2 == 'ok' else exp, len(got) if st == 'ok' else got,
                     text=case['seq'], history=[HIST_CFG[i] for i in case['hist'][:step + 1]], step=step)
            return
    ctx.outcome = [case['seq'], case['hist']]


def check(case, ctx):
    import copy
    if case.get('kind') == 'history':
        return check_history(case, ctx)
    p = lib.pt()
    P = c01.build(case['seq'], case['slots'])
    s = pmodel.render(P)
    seq = case['seq']
    n = len(seq)
    o = case['opts']
    charges = o.get('charges', [1])
    isotopes = o.get('isotopes', [0])
    cfg = LOSS_CFG[o.get('loss', 0)]
    max_losses = o.get('max_losses', 1)
    mono = not o.get('avg', False)
    prec = o.get('precision')
    ions = case['ions']
    if o.get('scalar'):
        ions_arg, charges_arg, iso_arg = (ions if len(ions) > 1 else ions[0]), charges[0], isotopes[0]
        charges, isotopes = [charges[0]], [isotopes[0]]
    else:
        ions_arg, charges_arg, iso_arg = list(ions), list(charges), list(isotopes)

    def kwargs(rt):
        kw = {'monoisotopic': mono, 'isotopes': copy.deepcopy(iso_arg), 'max_losses': max_losses, 'return_type': rt}
        if prec is not None:
            kw['precision'] = prec
        for k in ('water_loss', 'ammonia_loss'):
            if cfg.get(k):
                kw[k] = True
        if cfg.get('losses') is not None:
            ls = copy.deepcopy(cfg['losses'])
            kw['losses'] = [tuple(x) for x in ls] if isinstance(ls[0], list) else tuple(ls)
        return kw

    st, frs = lib.call(p.fragment, s, copy.deepcopy(ions_arg), copy.deepcopy(charges_arg), **kwargs('fragment'))
    ctx.evals += 1
    call = ['fragment', s, ions, charges, {k: v for k, v in kwargs('fragment').items()}]
    if st != 'ok':
        ctx.fail('fragment-raises', 'list', frs, call=call)
        return
    # ---- clause 1: exactly one ion per key
    losses = loss_list(cfg)
    exp = {}
    for t in ions:
        for (a, b) in ref_spans(t, n):
            for L in ref_losses(seq[a:b], losses, max_losses):
                for z in charges:
                    for iso in isotopes:
                        exp[(t, a, b, z, iso, L)] = 0
    got = {}
    for f in frs:
        k = (f.ion_type, f.start, f.end, f.charge, f.isotope, round(f.loss, 6))
        got[k] = got.get(k, 0) + 1
    missing = sorted(set(exp) - set(got))
    extra = sorted(set(got) - set(exp))
    dup = sorted(k for k, c in got.items() if c > 1)
    if missing or extra or dup:
        ctx.fail('ion-set', len(exp), len(frs), call=call, missing=missing[:6], extra=extra[:6], duplicated=dup[:6])
    # ---- clause 2: per ion agreement with the mass calculator and bookkeeping
    tol = 1e-6 if prec is None else 10 ** (-prec) * 1.0000001
    obs0 = None
    if not case.get('light'):
        for f in frs:
            a, b = f.start, f.end
            kw = dict(charge=f.charge, ion_type=f.ion_type, monoisotopic=mono, isotope=f.isotope, loss=f.loss)
            st, m = lib.call(p.mass, f.sequence, precision=prec, **kw)
            st2, mz = lib.call(p.mz, f.sequence, precision=prec, **kw)
            st3, nm = lib.call(p.mass, f.sequence, **dict(kw, charge=0))
            ctx.evals += 3
            key = [f.ion_type, a, b, f.charge, f.isotope, f.loss]
            labelled = bool(P.get('isotope'))
            static_term = any(t in ('N-Term', 'C-Term') for r in (P.get('static') or []) for t in r['targets'])
            info = dict(ion=key, text=s, fragment_sequence=f.sequence, isotope_labels=P.get('isotope'),
                        static_terminal_rule=static_term, monoisotopic=mono)
            if st != 'ok' or not lib.close(f.mass, m, tol):
                ctx.fail('ion-vs-mass', m, f.mass, deviation=(f.mass - m) if st == 'ok' else None, **info)
            if st2 != 'ok' or not lib.close(f.mz, mz, tol):
                ctx.fail('ion-vs-mz', mz, f.mz, deviation=(f.mz - mz) * f.charge if st2 == 'ok' else None, **info)
            if st3 != 'ok' or not lib.close(f.neutral_mass, nm, 1e-6):
                ctx.fail('ion-vs-neutral-mass', nm, f.neutral_mass,
                         deviation=(f.neutral_mass - nm) if st3 == 'ok' else None, **info)
            # the fragment's own sequence carries exactly the modifications of its residues / termini
            st4, fa = lib.call(p.parse, f.sequence)
            if st4 != 'ok':
                ctx.fail('fragment-sequence-unparsable', 'annotation', fa, **info)
            else:
                # expected: the explicit form of the parent cut to [a,b): residue mods of the range, terminal mods iff
                # the fragment contains that terminus (a static rule may be carried as a rule or written explicitly)
                E = pmodel.expand_static(P)
                Pe = {'seq': seq[a:b]}
                res = [[i - a, ms] for i, ms in E.get('res', []) if a <= i < b]
                if res:
                    Pe['res'] = res
                if a == 0 and E.get('nterm'):
                    Pe['nterm'] = E['nterm']
                if b == n and E.get('cterm'):
                    Pe['cterm'] = E['cterm']
                if P.get('isotope'):
                    Pe['isotope'] = P['isotope']
                for g in ('charge', 'adducts'):   # a charge written on the parent is carried by the slices
                    if P.get(g) is not None:
                        Pe[g] = P[g]
                # rules that target a terminus cannot be expanded on a piece that lacks it: only residue rules may
                # still be carried as rules
                obs, err = pmodel.observed_explicit(fa, [r for r in (P.get('static') or [])
                                                         if not any(t in ('N-Term', 'C-Term') for t in r['targets'])])
                d = pmodel.diff(pmodel.expected(Pe), obs) if err is None else {'static': err}
                if d:
                    ctx.fail('fragment-sequence-mods', None, None, diff=d, **info)
            if f.ion_type in FWD + BWD and f.number != b - a:
                ctx.fail('ion-number', b - a, f.number, **info)
            if bool(f.internal) != (a != 0 and b != n):
                ctx.fail('ion-internal-flag', a != 0 and b != n, f.internal, **info)
    # ---- labels identify ions: two different (type, span, charge, isotope, loss) combinations of one call never share a label
    seen_labels = {}
    for f in frs:
        k = (f.ion_type, f.start, f.end, f.charge, f.isotope, round(f.loss, 6))
        other = seen_labels.setdefault(f.label, k)
        if other != k:
            ctx.fail('label-collision', [list(other), list(k)], f.label, text=s)
            break
    # ---- clause 3: the other return types are projections of the fragment list
    if case.get('proj'):
        for rt, proj in (('mass', lambda f: f.mass), ('mz', lambda f: f.mz), ('label', lambda f: f.label),
                         ('mass-label', lambda f: (f.mass, f.label)), ('mz-label', lambda f: (f.mz, f.label))):
            st, g = lib.call(p.fragment, s, copy.deepcopy(ions_arg), copy.deepcopy(charges_arg), **kwargs(rt))
            ctx.evals += 1
            e = [proj(f) for f in frs]
            if st != 'ok' or [tuple(x) if isinstance(x, (list, tuple)) else x for x in g] != e:
                bad = None
                if st == 'ok' and len(g) == len(e):
                    bad = [[i, e[i], g[i]] for i in range(len(e)) if (tuple(g[i]) if isinstance(g[i], (list, tuple)) else g[i]) != e[i]][:3]
                ctx.fail('projection', rt, g if st != 'ok' else len(g), call=call, first_differences=bad)
        st, fr = lib.call(lambda: p.Fragmenter(s, mono))
        if st != 'ok':
            ctx.fail('fragmenter-raises', 'object', fr, call=call)
        else:
            kw = kwargs('fragment')
            kw.pop('monoisotopic')
            for rep in (1, 2):
                st, g = lib.call(fr.fragment, copy.deepcopy(ions_arg), copy.deepcopy(charges_arg), **copy.deepcopy(kw))
                ctx.evals += 1
                sig = lambda L: [(f.ion_type, f.start, f.end, f.charge, f.isotope, f.loss, f.mass, f.mz, f.sequence) for f in L]
                if st != 'ok' or sig(g) != sig(frs):
                    ctx.fail('fragmenter-differs', len(frs), g if st != 'ok' else len(g), call=call, repetition=rep)
    ctx.outcome = [s, ions, sorted(o.items(), key=str), len(frs)]


CLASSIFIERS = {}
