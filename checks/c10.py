"""C10 — a modification means the same thing however it is spelled.

Space (b), complete: every entry of the bundled Unimod / PSI-MOD / XLMOD / monosaccharide vocabularies x all
spellings x {mass mono, mass avg, composition, mass of K[spelling]}.  Generic forms: enumerated formulas, glycans,
decorations."""
import itertools

from mc import lib, obo, refdata

PROPERTY = 'C10'
RULE = ('complete vocabulary space: every non-obsolete entry of unimod.obo, psi-mod.obo, xlmod.obo and every '
        'monosaccharide (read by an independent OBO reader) x every documented spelling x 4 observations; generic forms: '
        'all formulas of <=3 terms (any order, a symbol may be written more than once) over {C,H,N,O,13C,2H,Na} x counts {-2,1,2,12,1.5}, all glycans of <=3 terms over '
        '{Hex,HexNAc,Fuc,Neu5Ac,HexA,Pent,NeuAc,dHex} x {1,2,3}, prefixed signed shifts, decorations; every accession/name shared by two '
        'vocabularies asked in every order of the vocabularies against isolated reference answers; a state = one vocabulary entry or one '
        'generic form; non-trivial = has at least two spellings / a non-empty formula')
ASSUMPTIONS = ['"same error" = every spelling raises some ValueError subclass',
               'bare names that occur twice inside one vocabulary, or in both PSI-MOD and Unimod, are compared through '
               'their prefixed spellings only (the statement does not define precedence)',
               'Unimod brick symbols (Hex, HexNAc, dHex, NeuAc, ...) are expanded with a hand-written brick table; '
               'entries with a brick outside that table skip the tabulated-mass clause',
               'average masses are not compared with tabulated values here (C03 does), only between spellings']

BRICKS = {'Hex': {'C': 6, 'H': 10, 'O': 5}, 'HexNAc': {'C': 8, 'H': 13, 'N': 1, 'O': 5}, 'dHex': {'C': 6, 'H': 10, 'O': 4},
          'NeuAc': {'C': 11, 'H': 17, 'N': 1, 'O': 8}, 'NeuGc': {'C': 11, 'H': 17, 'N': 1, 'O': 9},
          'Pent': {'C': 5, 'H': 8, 'O': 4}, 'HexA': {'C': 6, 'H': 8, 'O': 6}, 'Kdn': {'C': 9, 'H': 14, 'O': 8},
          'Hep': {'C': 7, 'H': 12, 'O': 6}, 'HexN': {'C': 6, 'H': 11, 'N': 1, 'O': 4}, 'Me': {'C': 1, 'H': 2},
          'Ac': {'C': 2, 'H': 2, 'O': 1}, 'Sulf': {'S': 1, 'O': 3}, 'Phos': {'H': 1, 'P': 1, 'O': 3},
          'Water': {'H': 2, 'O': 1}}

UPFX = ['U:', 'UNIMOD:', 'unimod:', 'u:', 'Unimod:']
MPFX = ['M:', 'MOD:', 'PSI-MOD:', 'mod:', 'm:', 'psi-mod:']
XPFX = ['X:', 'XLMOD:', 'xlmod:', 'x:']

_cache = {}


def vocab():
    if 'v' not in _cache:
        u = obo.unimod()
        m = [e for e in obo.psimod() if not e['obsolete']]
        x = [e for e in obo.xlmod() if not e['obsolete']]
        g = obo.monosaccharides()
        _cache['v'] = {'unimod': u, 'psimod': m, 'xlmod': x, 'mono': g}
        names = {}
        for k, L in _cache['v'].items():
            c = {}
            for e in L:
                c[e['name']] = c.get(e['name'], 0) + 1
            names[k] = c
        _cache['names'] = names
    return _cache['v']


def describe(tier):
    v = vocab()
    return {k: len(L) for k, L in v.items()} | {'unimod_prefixes': UPFX, 'psimod_prefixes': MPFX, 'xlmod_prefixes': XPFX}


def shards(tier):
    v = vocab()
    out = []
    for k, L in v.items():
        for i in range(0, len(L), 50):
            out.append({'kind': 'vocab', 'db': k, 'lo': i, 'hi': min(len(L), i + 50)})
    out += [{'kind': 'formula', 'first': i} for i in range(len(FEL))]
    out += [{'kind': 'glycan'}, {'kind': 'generic'}]
    keys = cross_keys()
    _cross_baselines(keys)          # computed here, in the pristine parent; inherited by the forked workers
    out += [{'kind': 'cross', 'lo': i, 'hi': min(len(keys), i + 40)} for i in range(0, len(keys), 40)]
    return out


CROSS_PFX = {'unimod': 'U:', 'psimod': 'M:', 'xlmod': 'X:'}
_cross_base = {}


def cross_keys():
    """accessions and names that occur in at least two of the bundled vocabularies: [key, [vocabularies]]"""
    v = vocab()
    where = {}
    for db in ('unimod', 'psimod', 'xlmod'):
        for e in v[db]:
            for k in (e['acc'], e['name']):
                if k and '[' not in k and ']' not in k:
                    where.setdefault(k, set()).add(db)
    return sorted([k, sorted(dbs)] for k, dbs in where.items() if len(dbs) >= 2)


def _obs_plain(sp):
    p = lib.pt()
    out = []
    for o in _obs(p, sp):
        out.append(None if o is None else [o[0], o[1] if o[0] == 'ok' else type(o[1]).__name__])
    return out


def _cross_baselines(keys):
    """the observation vector of each prefixed spelling, computed in one forked child per vocabulary: a child has
    resolved nothing before and only ever asks its own vocabulary"""
    for db in CROSS_PFX:
        sps = [CROSS_PFX[db] + k for k, dbs in keys if db in dbs and CROSS_PFX[db] + k not in _cross_base]
        if sps:
            _cross_base.update(lib.isolated(lambda: {sp: _obs_plain(sp) for sp in sps}))


FEL = ['C', 'H', 'N', 'O', '13C', '2H', 'Na']
FCOUNT = [-2, 1, 2, 12, 1.5]
GNAMES = {'Hex': BRICKS['Hex'], 'HexNAc': BRICKS['HexNAc'], 'Fuc': BRICKS['dHex'], 'Neu5Ac': BRICKS['NeuAc'],
          'HexA': BRICKS['HexA'], 'Pent': BRICKS['Pent'], 'NeuAc': BRICKS['NeuAc'], 'dHex': BRICKS['dHex']}   # names and synonyms


def gen(shard, tier):
    v = vocab()
    if shard['kind'] == 'vocab':
        for i in range(shard['lo'], shard['hi']):
            yield {'kind': 'vocab', 'db': shard['db'], 'i': i, 'acc': v[shard['db']][i]['acc']}, 1, True
    elif shard['kind'] == 'formula':
        a = shard['first']
        for m in range(1, 4):
            for rest in itertools.product(range(len(FEL)), repeat=m - 1):   # any order, symbols may repeat
                els = [a] + list(rest)
                for counts in itertools.product(range(len(FCOUNT)), repeat=m):
                    yield {'kind': 'formula', 'els': els, 'counts': list(counts)}, m, True
    elif shard['kind'] == 'glycan':
        names = list(GNAMES)
        for m in range(1, 4):
            for els in itertools.permutations(range(len(names)), m):
                for counts in itertools.product((1, 2, 3), repeat=m):
                    yield {'kind': 'glycan', 'els': list(els), 'counts': list(counts)}, m, True
    elif shard['kind'] == 'cross':
        keys = cross_keys()
        for i in range(shard['lo'], shard['hi']):
            yield {'kind': 'cross', 'key': keys[i][0], 'dbs': keys[i][1]}, len(keys[i][1]), True
    else:
        for i, _ in enumerate(GENERIC):
            yield {'kind': 'generic', 'i': i}, 1, True


def _obs(p, sp, bracket_ok=True):
    """Observation vector of one spelling: (mono, avg, comp, mass-of-K[sp] - mass-of-K)."""
    out = []
    for fn in (lambda: p.mod_mass(sp, True), lambda: p.mod_mass(sp, False), lambda: p.mod_comp(sp)):
        out.append(lib.call(fn))
    if bracket_ok and sp.count('[') == sp.count(']'):
        out.append(lib.call(lambda: p.mass(f'K[{sp}]') - p.mass('K')))
    else:
        out.append(None)
    return out


def _agree(ctx, entry_label, base_sp, base, sp, obs):
    names = ['mod_mass-mono', 'mod_mass-avg', 'mod_comp', 'mass-K[..]']
    for k in range(4):
        a, b = base[k], obs[k]
        if a is None or b is None:
            continue
        if a[0] == 'err' or b[0] == 'err':
            for st, v in (a, b):
                if st == 'err' and not isinstance(v, ValueError):
                    ctx.fail('spelling-foreign-exception', 'ValueError', v, entry=entry_label, spelling=[base_sp, sp],
                             what=names[k])
            if a[0] != b[0]:
                ctx.fail('spelling-disagree-error', _s(a), _s(b), entry=entry_label, spelling=[base_sp, sp],
                         what=names[k])
            continue
        if k == 2:
            if _nz(a[1]) != _nz(b[1]):
                ctx.fail('spelling-disagree-comp', a[1], b[1], entry=entry_label, spelling=[base_sp, sp])
        elif not lib.close(a[1], b[1], 1e-5):
            ctx.fail('spelling-disagree-mass', a[1], b[1], entry=entry_label, spelling=[base_sp, sp], what=names[k])


def _spaced_formula(text):
    toks = text.split()
    if len(toks) % 2:
        return None
    comp = {}
    for sym, cnt in zip(toks[::2], toks[1::2]):
        if sym.startswith('('):
            sym = sym[1:].replace(')', '')
        try:
            refdata.atom_mass(sym)
            comp[sym] = comp.get(sym, 0) + int(cnt)
        except (KeyError, ValueError):
            return None
    return {k: v for k, v in comp.items() if v}


def _nz(comp):
    return {k: v for k, v in comp.items() if v != 0} if isinstance(comp, dict) else comp


def _s(x):
    return x[1] if x[0] == 'ok' else f'{type(x[1]).__name__}'


def _expand(comp):
    out = {}
    for k, n in comp.items():
        if k in BRICKS:
            for e, c in BRICKS[k].items():
                out[e] = out.get(e, 0) + c * n
        else:
            try:
                refdata.atom_mass(k)
            except KeyError:
                return None
            out[k] = out.get(k, 0) + n
    return {k: v for k, v in out.items() if v}


def fmt_count(c):
    return str(c)


def write_formula(els, counts):
    s = ''
    comp = {}
    for e, c in zip(els, counts):
        if e[0].isdigit():
            s += f'[{e}{fmt_count(c)}]'
        else:
            s += f'{e}{fmt_count(c)}'
        comp[e] = comp.get(e, 0) + c
    return s, comp


GENERIC = [
    # (spelling, expected mass mono or None, note)
    ('U:+15.995', 15.995), ('UNIMOD:+15.995', 15.995), ('M:-18.0106', -18.0106), ('MOD:+1.5', 1.5), ('X:+100.5', 100.5),
    ('XLMOD:-2.25', -2.25), ('R:+3.25', 3.25), ('RESID:+3.25', 3.25), ('G:+162.0528', 162.0528), ('GNO:-1.5', -1.5),
    ('Obs:+15.99', 15.99), ('Obs:15.99', 15.99), ('obs:-17.0265', -17.0265), ('OBS:+0.5', 0.5),
    ('+15.995', 15.995), ('15.995', 15.995), ('-18.0106', -18.0106), ('1', 1.0), ('+1', 1.0), ('0.5', 0.5),
]
# every documented prefix (all case variants used for names) with a signed number is a mass shift
GENERIC += [(pf + v, float(v)) for pf in ['U:', 'UNIMOD:', 'unimod:', 'u:', 'Unimod:', 'UniMod:', 'M:', 'MOD:', 'PSI-MOD:',
                                          'mod:', 'm:', 'psi-mod:', 'Psi-Mod:', 'X:', 'XLMOD:', 'xlmod:', 'x:', 'R:',
                                          'RESID:', 'resid:', 'r:', 'G:', 'GNO:', 'gno:', 'g:', 'Obs:', 'obs:']
            for v in ('+15.9949', '-1.5') if (pf + v, float(v)) not in GENERIC]
DECOR_BASES = ['Oxidation', 'U:35', 'Formula:C2H2O', 'Glycan:Hex', '15.995', 'Obs:+15.99', 'M:00719', 'X:DSS',
               'Label:13C(6)', 'Xlink:DTSSP[88]']


def check(case, ctx):
    p = lib.pt()
    kind = case['kind']
    if kind == 'vocab':
        v = vocab()
        db = case['db']
        e = v[db][case['i']]
        dup = _cache['names'][db].get(e['name'], 0) > 1
        acc, name = e['acc'], e['name']
        label = f"{db}:{acc}:{name}"
        if db == 'unimod':
            shared = name in _cache['names']['psimod']
            sps = [pf + acc for pf in UPFX] + ([pf + name for pf in UPFX] if not dup else []) + \
                  ([name] if not dup and not shared else [])
        elif db == 'psimod':
            sps = [pf + acc for pf in MPFX] + ([pf + name for pf in MPFX] + [name] if not dup else [])
        elif db == 'xlmod':
            sps = [pf + acc for pf in XPFX] + ([pf + name for pf in XPFX] if not dup else [])
        else:
            sps = ['Glycan:' + name] + ['Glycan:' + s for s in e['synonyms']] + ['glycan:' + name, 'Glycan:' + name + '1']
        base_sp = sps[0]
        base = _obs(p, base_sp)
        ctx.evals += 4
        # a multiplier multiplies the mass (Mod object path), in both mass modes
        for k, mono in ((0, True), (1, False)):
            if base[k][0] == 'ok':
                st, got = lib.call(p.mod_mass, p.Mod(base_sp, 2), mono)
                ctx.evals += 1
                if st != 'ok' or not lib.close(got, 2 * base[k][1], 1e-5):
                    ctx.fail('multiplier', 2 * base[k][1], got, entry=label, spelling=base_sp, monoisotopic=mono)
        # ... and the composition; asking with a multiplier does not change what the plain spelling means afterwards
        if base[2][0] == 'ok':
            st, got = lib.call(p.mod_comp, p.Mod(base_sp, 2))
            want = {k_: 2 * v for k_, v in base[2][1].items()}
            if st != 'ok' or {k_: v for k_, v in got.items() if v} != {k_: v for k_, v in want.items() if v}:
                ctx.fail('multiplier-composition', want, got, entry=label, spelling=base_sp)
            st, again = lib.call(p.mod_comp, base_sp)
            ctx.evals += 2
            if st != 'ok' or again != base[2][1]:
                ctx.fail('composition-after-multiplied-request', base[2][1], again, entry=label, spelling=base_sp)
        for sp in sps[1:]:
            o = _obs(p, sp)
            ctx.evals += 4
            _agree(ctx, label, base_sp, base, sp, o)
        # tabulated mono mass vs mass of tabulated composition (frozen table) and vs the library's answer
        if db in ('unimod', 'mono'):
            comp = e['comp'] if db == 'unimod' else obo.simple_formula(e['formula'] or '')
            comp = _expand(comp) if comp is not None else None
            if comp is not None and e['mono'] is not None:
                ref = refdata.comp_mass(comp, True)
                if not lib.close(ref, e['mono'], 1e-3):
                    ctx.fail('table-mono-vs-composition', ref, e['mono'], entry=label, comp=comp)
                if base[0][0] == 'ok' and not lib.close(base[0][1], e['mono'], 1e-3):
                    ctx.fail('library-mono-vs-table', e['mono'], base[0][1], entry=label, spelling=base_sp)
                if base[2][0] == 'ok' and _nz(base[2][1]) != comp:
                    ctx.fail('library-comp-vs-table', comp, base[2][1], entry=label, spelling=base_sp)
                if base[0][0] != 'ok':
                    ctx.fail('library-cannot-resolve-entry', e['mono'], base[0][1], entry=label, spelling=base_sp)
                if db == 'mono' and base[1][0] == 'ok':
                    # monosaccharides: the average mass the library reports is that of the tabulated composition too
                    refa = refdata.comp_mass(comp, False)
                    if not lib.close(base[1][1], refa, 2e-3):
                        ctx.fail('library-avg-vs-composition', refa, base[1][1], entry=label, spelling=base_sp)
        if db == 'psimod' and e.get('formula') not in (None, 'none'):
            # PSI-MOD rows spell their composition as 'C 2 H 2 O 1' / '(13)C 6': the library's composition is that one
            # (an all-zero row is the empty composition with mass 0, not an unresolvable entry)
            comp = _spaced_formula(e['formula'])
            if comp is not None:
                if base[2][0] != 'ok' or _nz(base[2][1]) != comp:
                    ctx.fail('library-comp-vs-table', comp, _s(base[2]), entry=label, spelling=base_sp)
                if not comp and (base[0][0] != 'ok' or base[0][1] != 0):
                    ctx.fail('library-mono-vs-table', 0.0, _s(base[0]), entry=label, spelling=base_sp)
                if not comp:
                    for alt, want in ((base_sp + '|Formula:C2H2O', {}), ('Foo|' + base_sp, {})):
                        st, got = lib.call(p.mod_comp, alt)
                        ctx.evals += 1
                        if st != 'ok' or _nz(got) != want:
                            ctx.fail('alternatives-first-resolvable', want, got, spelling=alt)
        ctx.outcome = [label, _s(base[0])]
    elif kind == 'cross':
        # one key, several vocabularies: whichever vocabulary is asked first, each prefixed spelling answers as it does
        # in a process that has resolved nothing else (history = every order of the vocabularies, run back to back)
        key, dbs = case['key'], case['dbs']
        n = 0
        for order in itertools.permutations(dbs):
            for db in order:
                sp = CROSS_PFX[db] + key
                if sp not in _cross_base:
                    _cross_baselines([[key, dbs]])
                got = _obs_plain(sp)
                ctx.evals += 4
                n += 1
                want = _cross_base[sp]
                for k, (a, b) in enumerate(zip(want, got)):
                    same = a == b or (a and b and a[0] == b[0] == 'ok' and not isinstance(a[1], dict) and
                                      lib.close(a[1], b[1], 1e-9))
                    if not same:
                        ctx.fail('cross-vocabulary-history', a, b, spelling=sp, asked_in_order=list(order),
                                 what=['mod_mass-mono', 'mod_mass-avg', 'mod_comp', 'mass-K[..]'][k])
        ctx.outcome = [key, n]
    elif kind == 'formula':
        els = [FEL[i] for i in case['els']]
        counts = [FCOUNT[i] for i in case['counts']]
        text, comp = write_formula(els, counts)
        sp = 'Formula:' + text
        for mono in (True, False):
            ref = refdata.comp_mass(comp, mono)
            st, got = lib.call(p.mod_mass, sp, mono)
            ctx.evals += 1
            if st != 'ok' or not lib.close(got, ref, 1e-5 if mono else 2e-3):
                ctx.fail('formula-mass', ref, got, spelling=sp, monoisotopic=mono)
        st, got = lib.call(p.mod_comp, sp)
        ctx.evals += 1
        if st != 'ok' or _nz(got) != _nz(comp):
            ctx.fail('formula-comp', comp, got, spelling=sp)
        for dec, mult in ((sp + '|INFO:x', 1), ('INFO:x|' + sp, 1), (sp + '#g1', 1), (sp, 2), (sp, 3)):
            ref = refdata.comp_mass(comp, True) * mult
            st, got = lib.call(p.mod_mass, p.Mod(dec, mult))
            ctx.evals += 1
            if st != 'ok' or not lib.close(got, ref, 1e-5):
                ctx.fail('formula-decoration', ref, got, spelling=dec, mult=mult)
        ctx.outcome = sp
    elif kind == 'glycan':
        names = list(GNAMES)
        els = [names[i] for i in case['els']]
        comp = {}
        text = ''
        for nme, c in zip(els, case['counts']):
            text += f'{nme}{c}'
            for k, x in GNAMES[nme].items():
                comp[k] = comp.get(k, 0) + x * c
        sp = 'Glycan:' + text
        for mono in (True, False):
            ref = refdata.comp_mass(comp, mono)
            st, got = lib.call(p.mod_mass, sp, mono)
            ctx.evals += 1
            if st != 'ok' or not lib.close(got, ref, 1e-3 if mono else 5e-3):
                ctx.fail('glycan-mass', ref, got, spelling=sp, monoisotopic=mono)
        st, got = lib.call(p.mod_comp, sp)
        ctx.evals += 1
        if st != 'ok' or _nz(got) != _nz(comp):
            ctx.fail('glycan-comp', comp, got, spelling=sp)
        ctx.outcome = sp
    else:
        sp, ref = GENERIC[case['i']]
        st, got = lib.call(p.mod_mass, sp)
        ctx.evals += 1
        if st != 'ok' or not lib.close(got, ref, 1e-9):
            ctx.fail('generic-shift', ref, got, spelling=sp)
        st, got = lib.call(lambda: p.mass(f'K[{sp}]') - p.mass('K'))
        if st != 'ok' or not lib.close(got, ref, 1e-6):
            ctx.fail('generic-shift-in-peptide', ref, got, spelling=sp)
        # ... also on the composition path (isotope-labelled peptide, comp_mass, comp with estimate)
        for lab in ('<13C>', '<15N>'):
            st, got = lib.call(lambda: p.mass(f'{lab}K[{sp}]') - p.mass(f'{lab}K'))
            ctx.evals += 2
            if st != 'ok' or not lib.close(got, ref, 1e-6):
                ctx.fail('generic-shift-in-labelled-peptide', ref, got, spelling=sp, label=lab)
        st, got = lib.call(lambda: p.comp_mass(f'K[{sp}]')[1])
        ctx.evals += 1
        if st != 'ok' or not lib.close(got, ref, 1e-9):
            ctx.fail('generic-shift-comp_mass-delta', ref, got, spelling=sp)
        if case['i'] < len(DECOR_BASES):
            b = DECOR_BASES[case['i']]
            st, m0 = lib.call(p.mod_mass, b)
            if st != 'ok':
                ctx.fail('decoration-base', 'mass', m0, spelling=b)
            else:
                for dec, mult in ((b + '|INFO:x', 1), ('INFO:x|' + b, 1), (b + '#g1', 1), (b + '#g1(0.9)', 1),
                                  ('Foo|' + b, 1), (b + '|Foo', 1), (b, 2), (b, 3), (b + '|Oxidation', 1)):
                    st, got = lib.call(p.mod_mass, p.Mod(dec, mult))
                    ctx.evals += 1
                    if st != 'ok' or not lib.close(got, m0 * mult, 1e-6):
                        ctx.fail('decoration', m0 * mult, got, spelling=dec, mult=mult)
                    if dec.count('[') == dec.count(']'):
                        txt = f'K[{dec}]' + (f'^{mult}' if mult > 1 else '')
                        st, got = lib.call(lambda: p.mass(txt) - p.mass('K'))
                        ctx.evals += 1
                        if st != 'ok' or not lib.close(got, m0 * mult, 1e-6):
                            ctx.fail('decoration-in-peptide', m0 * mult, got, text=txt)
                st, got = lib.call(p.mod_mass, '#g1')
                if st != 'ok' or got != 0:
                    ctx.fail('bare-tag', 0, got)
        ctx.outcome = sp


def _d12(case, f):
    return False


CLASSIFIERS = {}
