"""C18 — condensing modifications to mass shifts preserves the peptide.

Space (a): abstract peptides over every slot (residue, terminal, labile, static incl. N-Term/C-Term targets, isotope
labels, unknown, interval, charge/adducts) at deviation <= 3 x include_plus x precision 3..8."""
import itertools

from mc import lib, pmodel, space, catalogue, refmass
from checks import c01, c02

PROPERTY = 'C18'
RULE = ('deviation-bounded product (<=3 of 12 slots: labile, static rule incl. N-Term/C-Term/multi-residue targets, isotope '
        'label, unknown, N-term, 3 residue slots, interval, C-term, charge/adducts) with catalogue modifications of known '
        'mass on PEK and SMKPEMK x include_plus x precision {3,6,8} (all of 3..8 at level<=1); non-trivial = at least one '
        'slot set')
ASSUMPTIONS = ['masses are compared on the neutral peptide (charge carriers are not modifications): the charge/adducts of '
               'input and output are ignored by computing both masses with charge=0 and no adducts',
               'budget: (#numeric shifts written) * 0.5*10^-precision + 1e-9 (float noise)',
               '"shifts sit on the residues and termini that were modified": a residue/terminus carries a shift iff it '
               'carries a modification in the explicit form (static rules and labels expanded); unknown-position and '
               'interval modifications stay unknown-position / interval shifts']

TEXTS = ['Oxidation', '15.995', 'Formula:C2H2O', 'Glycan:Hex', 'U:Phospho', '-18.0106', 'Label:13C(6)', 'Obs:+15.99']


def modlists(level):
    if level <= 1:
        out = []
        for t in TEXTS:
            out += [[[t, 1]], [[t, 2]]]
        return out + [[['Oxidation', 1], ['1.5', 2]]]
    return [[['Oxidation', 1]], [['15.995', 2]], [['Formula:C2H2O', 1], ['1.5', 1]]]


AXES = ['labile', 'static', 'isotope', 'unknown', 'nterm', 'r0', 'rmid', 'rlast', 'iv', 'cterm', 'charge']


def values_at(axis, level, n):
    if axis in ('labile', 'unknown', 'nterm', 'cterm', 'r0', 'rmid', 'rlast'):
        return modlists(level)
    if axis == 'static':
        mls = [[['Oxidation', 1]], [['10', 1]]]
        return [[{'mods': ml, 'targets': t}] for ml in mls for t in c01.TARGETS]
    if axis == 'isotope':
        return [['13C'], ['15N'], ['13C', '15N'], ['18O'], ['D'], ['18O', '13C']]
    if axis == 'iv':
        mls = [[['Oxidation', 1]], [['1.5', 2]], [['Formula:C2H2O', 1]], None]
        out = [[[a, b, amb, ml]] for (a, b) in ((0, 2), (1, n)) for amb in (False, True) for ml in mls
               if not (ml is None and not amb)]
        if n >= 3:   # two intervals: without / with modifications in both orders, and two modified ones
            out += [[[0, 1, True, None], [1, n, False, [['Oxidation', 1]]]],
                    [[0, 1, False, [['1.5', 2]]], [2, n, True, None]],
                    [[0, 1, False, [['Oxidation', 1]]], [1, n, True, [['Formula:C2H2O', 1], ['1.5', 1]]]],
                    [[0, 1, False, None], [1, 2, True, None], [2, n, False, [['15.995', 1]]]]]
        return out
    if axis == 'charge':
        return [[2, None, None], [-1, None, None], [2, None, '+2Na+'], [1, None, '+Na+']] + \
            ([[12, None, None], [-11, None, None]] if level <= 2 else [])       # two-digit carrier counts
    raise KeyError(axis)


def describe(tier):
    return {'bases': ['PEK', 'KEK', 'MSKPEMK'], 'long_base': 'PEMKACDFGHIK at deviation <= 2', 'deviation_bound': 3, 'axes': AXES, 'precisions': [3, 4, 5, 6, 7, 8]}


def shards(tier):
    out = []
    for seq in describe(tier)['bases']:
        for sh in space.dev_shards(AXES, 3):
            sh['seq'] = seq
            out.append(sh)
    for sh in space.dev_shards(AXES, 2):       # a long peptide (two-digit positions, more shifts than the rounding budget of one)
        sh['seq'] = LONG_BASE
        out.append(sh)
    return out


LONG_BASE = 'PEMKACDFGHIK'


def gen(shard, tier):
    seq = shard['seq']
    n = len(seq)
    for slots in space.dev_states(shard, lambda a, lv: values_at(a, lv, n)):
        yield {'seq': seq, 'slots': slots}, shard['k'], shard['k'] > 0


def is_num(v):
    return isinstance(v, (int, float)) and not isinstance(v, bool)


def check(case, ctx):
    p = lib.pt()
    P = c01.build(case['seq'], case['slots'])
    s = pmodel.render(P)
    n = len(P['seq'])
    k = len(case['slots'])
    precisions = [3, 4, 5, 6, 7, 8] if k <= 1 else [3, 6, 8]
    st, m_in = lib.call(p.mass, s, charge=0, charge_adducts='+0H+') if False else lib.call(_neutral_mass, p, s)
    if st != 'ok':
        ctx.fail('mass-of-input-raises', 'mass', m_in, text=s)
        return
    E = pmodel.expand_static(P)
    modified_res = {int(i) for i, ms in E.get('res', []) if ms}
    any_mod = any(P.get(x) for x in ('labile', 'static', 'isotope', 'unknown', 'nterm', 'cterm', 'res')) or \
        any(iv[3] for iv in (P.get('iv') or []))
    for plus in (False, True):
        for prec in precisions:
            st, out = lib.call(p.condense_to_mass_mods, s, plus, prec)
            ctx.evals += 1
            call = ['condense_to_mass_mods', s, plus, prec]
            if st != 'ok':
                ctx.fail('raises', 'string', out, call=call)
                continue
            stp, oa = lib.call(p.parse, out)
            if stp != 'ok' or hasattr(oa, 'annotations'):
                ctx.fail('output-unparsable', 'single annotation', out, call=call)
                continue
            if oa.sequence != P['seq']:
                ctx.fail('residues-changed', P['seq'], out, call=call)
                continue
            o = pmodel.observed(oa)
            # only numeric modifications, no global rules / labels left
            vals = []
            for key in ('labile', 'unknown', 'nterm', 'cterm'):
                vals += [m for m in (getattr(oa, key + '_mods') or [])]
            for ms in (oa.internal_mods or {}).values():
                vals += list(ms)
            for iv in (oa.intervals or []):
                vals += list(iv.mods or [])
            if any(not is_num(m.val) for m in vals) or oa.static_mods or oa.isotope_mods:
                ctx.fail('non-numeric-left', 'numeric shifts only', out, call=call)
                continue
            nshifts = sum(m.mult for m in vals)
            st2, m_out = lib.call(_neutral_mass, p, out)
            if st2 != 'ok':
                ctx.fail('mass-of-output-raises', 'mass', m_out, call=call, output=out)
                continue
            budget = nshifts * 0.5 * 10 ** (-prec) + 1e-9   # no shift of the alphabets is below the library's 1e-6 cut
            if P.get('isotope'):
                # under a label the input is weighed through compositions, the output through tabulated masses of the
                # named modifications: they differ by up to ~5e-7 per tabulated entry (6-decimal table, C03's subject)
                budget += 1e-6 * max(1, refmass.n_mass_terms(P))
            if abs(m_out - m_in) > budget:
                ctx.fail('mass-changed', m_in, m_out, call=call, output=out, deviation=m_out - m_in, budget=budget,
                         has_charge=P.get('charge') is not None, has_unknown=bool(P.get('unknown')),
                         has_interval_mods=any(iv[3] for iv in (P.get('iv') or [])), labels=P.get('isotope'),
                         static_terminal=any(t in ('N-Term', 'C-Term') for r in (P.get('static') or []) for t in r['targets']))
                continue
            # a charge written without adducts: the charged masses agree as well (the label path writes the carriers as a
            # count of H+; 5e-8 per charge for the proton / hydrogen-minus-electron difference of the two paths)
            if P.get('charge') is not None and not P.get('adducts'):
                c_in, c_out = lib.call(p.mass, s), lib.call(p.mass, out)
                ctx.evals += 2
                if c_in[0] != 'ok' or c_out[0] != 'ok' or abs(c_in[1] - c_out[1]) > budget + 5e-8 * abs(P['charge']) + 1e-7:
                    ctx.fail('charged-mass-changed', c_in[1], c_out[1], call=call, output=out, charge=P['charge'], budget=budget)
            # placement: a residue carries a shift iff it is modified in the explicit form (labels: every residue
            # containing the element -- not prescribed here, any residue may then carry a shift)
            if not P.get('isotope'):
                got_res = {int(i) for i in (oa.internal_mods or {})}
                if got_res != modified_res:
                    ctx.fail('shift-placement', sorted(modified_res), sorted(got_res), call=call, output=out)
                if bool(oa.nterm_mods) != bool(E.get('nterm')) or bool(oa.cterm_mods) != bool(E.get('cterm')):
                    ctx.fail('terminal-shift-placement', [bool(E.get('nterm')), bool(E.get('cterm'))],
                             [bool(oa.nterm_mods), bool(oa.cterm_mods)], call=call, output=out)
                if bool(oa.labile_mods) != bool(P.get('labile')):
                    ctx.fail('labile-shift-placement', bool(P.get('labile')), bool(oa.labile_mods), call=call, output=out)
            # the charge state and its adducts are carried over unchanged
            want_adducts = P.get('adducts')
            got_adducts = oa.charge_adducts[0].val if oa.charge_adducts else None
            if oa.charge != P.get('charge') or got_adducts != want_adducts:
                ctx.fail('charge-or-adducts-changed', [P.get('charge'), want_adducts], [oa.charge, got_adducts], call=call,
                         output=out)
            if not any_mod and P.get('charge') is None and out != s:
                ctx.fail('unmodified-not-unchanged', s, out, call=call)
            if plus and any(is_num(m.val) and m.val > 0 for m in vals) and '[+' not in out and '{+' not in out:
                ctx.fail('include_plus-ignored', 'explicit plus on positive shifts', out, call=call)
    # the same peptide given as one parsed object, rewritten twice with different options: each result equals the result
    # for the string (the documentation recommends parsing once and reusing the annotation)
    st, obj = lib.call(p.parse, s)
    if st == 'ok':
        for plus, prec in ((False, 3), (True, 6), (False, 3)):
            a = lib.call(p.condense_to_mass_mods, s, plus, prec)
            b = lib.call(p.condense_to_mass_mods, obj, plus, prec)
            ctx.evals += 2
            if a[0] != b[0] or (a[0] == 'ok' and a[1] != b[1]):
                ctx.fail('reused-annotation-differs', a[1], b[1], call=['condense_to_mass_mods', s, plus, prec])
                break
    # ... and after the object has been asked for its mass, composition and fragments (queries, not editors)
    st, obj = lib.call(p.parse, s)
    if st == 'ok':
        for q in (lambda: p.mass(obj), lambda: p.comp_mass(obj), lambda: p.mass(obj, monoisotopic=False),
                  lambda: p.fragment(obj, 'y', 1), lambda: p.mz(obj, charge=2)):
            lib.call(q)
        a = lib.call(p.condense_to_mass_mods, s, False, 5)
        b = lib.call(p.condense_to_mass_mods, obj, False, 5)
        ctx.evals += 7
        if a[0] != b[0] or (a[0] == 'ok' and a[1] != b[1]):
            ctx.fail('reused-annotation-differs', a[1], b[1], call=['condense_to_mass_mods', s, False, 5],
                     note='after mass / comp_mass / fragment / mz on the same annotation object')
    ctx.outcome = s


def _neutral_mass(p, s):
    a = p.parse(s)
    a.charge = None
    a.charge_adducts = None
    return p.mass(a)


def _d18_label(case, f):
    """labels on O or H: every one-residue segment is weighed with its own terminal water, so the label shift of the
    water is written once per residue instead of once: output - input = (n-1) * shift(H2O)"""
    from mc import refdata
    if f['clause'] != 'mass-changed' or not f.get('labels'):
        return False
    shift = 0.0
    for lab in f['labels']:
        el = {'18O': 'O', '17O': 'O', 'D': 'H', 'T': 'H', '2H': 'H'}.get(lab)
        if el:
            shift += (refdata.ISO[lab] - refdata.MONO[el]) * (2 if el == 'H' else 1)
    if shift == 0.0:
        return False
    n = len(case['seq'])
    return abs(f['deviation'] - (n - 1) * shift) <= f['budget'] + 1e-6


CLASSIFIERS = {'D18-label': _d18_label}
