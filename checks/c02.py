"""C02 — mass and m/z equal the sum of their physical parts (independent reference from the frozen NIST table).

Space (a): deviation-bounded product over shape axes (modification slots) and option axes (charge, adducts, ion type,
isotope, loss, precision, average mode); full products over short residue strings and the Unimod table."""
import itertools

from mc import lib, pmodel, space, catalogue, refmass, refdata, obo
from checks import c01

PROPERTY = 'C02'
RULE = ('deviation-bounded product space over 9 shape axes (labile, static rule, unknown, N-term, 3 residue slots, '
        'interval, C-term; modifications with an a-priori mass from the catalogue, multipliers 1-3) and 8 option axes '
        '(charge argument, charge/adducts in the string, adduct argument, ion type n, isotope 1-4, loss, precision 0-6, '
        'average mode) on the peptides PEK and SMKPEMK; full products: all 1-/2-letter strings over the 24 mass letters '
        '(+B,Z errors), 3-letter strings over 5 letters, every Unimod entry on K; non-trivial = at least one axis set')
ASSUMPTIONS = ['reference: frozen NIST isotope table (mc/refdata_nist.json), CODATA particle masses, residue compositions '
               'typed independently; average mass = sum(mass*abundance)',
               'tolerance 1e-5 Da monoisotopic / 2e-3 Da average (+0.5*10^-p when precision=p is requested)',
               'Unimod entries: library value must equal the tabulated value (1e-9) and the tabulated value the NIST '
               'composition mass within 5e-5 (upstream table precision, e.g. Hg); average masses of vocabulary entries '
               'are compared in C03 with its 1e-3+5ppm tolerance']

T = catalogue
def _c02_named(t):
    tl = t.lower()
    return not (tl.startswith(('m:', 'mod:', 'psi-mod:', 'x:', 'xlmod:')) or t in ('L-methionine sulfoxide',
                                                                                      'O-phospho-L-serine'))


MASS_TEXTS_L1 = ([t for t in T.NAMED if _c02_named(t)] + list(T.FORMULA) + list(T.GLYCAN) + list(T.SHIFTS) + list(T.PREFIXED_SHIFTS) +
                 list(T.DECORATED) + T.ZERO_MASS)
MASS_TEXTS_L2 = ['Oxidation', '15.995', 'UNIMOD:35', 'Label:13C(6)', 'Formula:[13C2][12C-2]H2N', 'Glycan:HexNAc2Hex3',
                 '-18.0106', 'Oxidation|INFO:note', 'U:Phospho', 'Glycan:Hex']
MASS_TEXTS_L3 = ['Oxidation', '1.5', 'Formula:C2H2O', 'U:+15.995']


def modlists(level):
    if level <= 1:
        out = []
        for t in MASS_TEXTS_L1:
            out += [[[t, 1]], [[t, 2]], [[t, 3]]]
        out += [[['Oxidation', 1], ['15.995', 1]], [['Acetyl', 2], ['Phospho', 1]]]
        return out
    if level == 2:
        return [[[t, m]] for t in MASS_TEXTS_L2 for m in (1, 2)]
    if level == 3:
        return [[[t, 1]] for t in MASS_TEXTS_L3] + [[['Oxidation', 2]]]
    return [[['Oxidation', 1]], [['1.5', 1]]]


IONS = list(refdata.ADDUCT_IONS)
COUNTS = [-2, -1, 1, 2, 3]


def adduct_text(n, ion):
    return ('+' if n > 0 else '-') + (str(abs(n)) if abs(n) != 1 else '') + ion


def adduct_values(level):
    singles = [adduct_text(n, ion) for ion in IONS for n in COUNTS]
    if level <= 1:
        pairs = [adduct_text(a, i) + ',' + adduct_text(b, j) for (a, i), (b, j) in
                 [((2, 'Na+'), (1, 'H+')), ((2, 'Na+'), (-1, 'H+')), ((1, 'Mg2+'), (1, 'H+')), ((1, 'K+'), (1, 'Na+')),
                  ((3, 'H+'), (-1, 'e-')), ((1, 'Cl-'), (1, 'I-')), ((2, 'Ca2+'), (-2, 'H+')), ((1, 'Li+'), (2, 'K+'))]]
        # the same ion named twice in one list accumulates
        return singles + pairs + ['+H+', '+2H+', '+Na+,+Na+', '+H+,+Na+,+H+', '+K+,-H+,+K+']
    if level == 2:
        return ['+Na+', '+2Na+', '-H+', '+Mg2+', '+2Na+,+H+', '+Cl-', '+e-', '+H+', '-2K+', '+Na+,+Na+']
    return ['+Na+', '+2Na+,-H+', '+H+']


def cstr_values(level):
    out = [[2, None], [-1, None], [6, None], [-4, None], [1, None]]
    ads = adduct_values(2) if level <= 2 else adduct_values(3)
    zs = [1, 2, 3, -1]
    out += [[zs[i % len(zs)], a] for i, a in enumerate(ads)]
    return out if level <= 2 else out[:2] + out[5:]


# the additive clauses (loss, isotope step, charge, precision) on peptides with a global isotope label: these take the
# composition route inside mass(); the clauses are evaluated differentially (no label reference needed here, C12 has it)
LABELS = [['13C'], ['15N'], ['18O'], ['D'], ['13C', '15N']]
SHAPE_AXES = ['labile', 'static', 'unknown', 'nterm', 'r0', 'rmid', 'rlast', 'iv', 'cterm']
OPT_AXES = ['charge_arg', 'cstr', 'adducts_arg', 'ion', 'isotope', 'loss', 'precision', 'avg']
AXES = SHAPE_AXES + OPT_AXES


def values_at(axis, level, n):
    if axis in ('labile', 'unknown', 'nterm', 'cterm', 'r0', 'rmid', 'rlast'):
        return modlists(level)
    if axis == 'static':
        tg = c01.TARGETS if level <= 2 else c01.TARGETS[:3]
        mls = modlists(2) if level <= 2 else modlists(3)
        out = [[{'mods': ml, 'targets': t}] for ml in mls for t in tg]
        if level <= 2:
            out.append([{'mods': [['Oxidation', 1]], 'targets': ['M']}, {'mods': [['1.5', 1]], 'targets': ['K']}])
            out.append([{'mods': [['Oxidation', 1]], 'targets': ['S', 'K']}, {'mods': [['1.5', 1]], 'targets': ['K']}])
            out.append([{'mods': [['Formula:C2H2O', 1]], 'targets': ['E', 'P', 'N-Term']}, {'mods': [['10', 1]], 'targets': ['P', 'N-Term']}])
            # one rule carrying two (three) modifications
            out.append([{'mods': [['1', 1], ['3', 1]], 'targets': ['K']}])
            out.append([{'mods': [['Oxidation', 1], ['Formula:C2H2O', 2], ['1.5', 1]], 'targets': ['K', 'N-Term']}])
        return out
    if axis == 'iv':
        mls = modlists(2) if level <= 2 else modlists(3)[:3]
        spans = [(0, n)] if n == 1 else [(0, 2), (1, n)]
        return [[[a, b, amb, ml]] for (a, b) in spans for amb in (False, True) for ml in mls]
    if axis == 'charge_arg':
        return [-4, -2, -1, 0, 1, 2, 3, 6] if level <= 2 else [-1, 2, 6]
    if axis == 'cstr':
        return cstr_values(level)
    if axis == 'adducts_arg':
        return adduct_values(level)
    if axis == 'ion':
        return ['n']
    if axis == 'isotope':
        return [1, 2, 3, 4] if level <= 2 else [1, 4]
    if axis == 'loss':
        return [-18.010565, 1.5]
    if axis == 'precision':
        return [0, 1, 2, 3, 4, 5, 6] if level <= 2 else [0, 3, 6]
    if axis == 'avg':
        return [True]
    raise KeyError(axis)


def bases(tier):
    return ['PEK', 'SMKPEMK']


def bound(tier):
    return 5 if tier == 'thorough' else 3


def describe(tier):
    return {'bases': bases(tier), 'deviation_bound': bound(tier), 'axes': AXES, 'catalogue_texts_level1': len(MASS_TEXTS_L1),
            'adduct_ions': IONS, 'adduct_counts': COUNTS}


def shards(tier):
    out = []
    for seq in bases(tier):
        for sh in space.dev_shards(AXES, bound(tier)):
            sh['seq'] = seq
            sh['kind'] = 'dev'
            out.append(sh)
    # a 12-residue base (two-digit positions; every residue letter once more) at deviation <= 1 / 2
    for sh in space.dev_shards(AXES, 2 if tier == 'thorough' else 1):
        sh['seq'] = 'SMKPEMKACDFW'
        sh['kind'] = 'dev'
        out.append(sh)
    out += [{'kind': 'letters', 'first': a} for a in refdata.ALL_LETTERS]
    out.append({'kind': 'unimod'})
    out += [{'kind': 'labelled', 'label': lab} for lab in LABELS]
    return out


def gen(shard, tier):
    if shard['kind'] == 'dev':
        seq = shard['seq']
        n = len(seq)
        k = shard['k']
        for slots in space.dev_states(shard, lambda a, lv: values_at(a, lv, n)):
            yield {'kind': 'dev', 'seq': seq, 'slots': slots}, k, k > 0
    elif shard['kind'] == 'letters':
        a = shard['first']
        yield {'kind': 'letters', 'seqs': [a] + [a + b for b in refdata.ALL_LETTERS] +
               ([a + b + c for b in 'GKMWX' for c in 'GKMWX'] if a in 'GKMWX' else [])}, 1, True
    elif shard['kind'] == 'labelled':
        for seq in ('SK', 'PEK', 'SMKPEMK'):
            for mod in (None, 'Oxidation', '15.995', 'Formula:C2H2O'):
                for ion in ('p', 'n', 'b', 'y', 'a', 'cy'):
                    yield {'kind': 'labelled', 'seq': seq, 'label': shard['label'], 'mod': mod, 'ion': ion}, 2, True
    else:
        yield {'kind': 'unimod'}, 1, True


def tol_for(mono, precision):
    t = 1e-5 if mono else 2e-3
    if precision is not None:
        t += 0.5 * 10 ** (-precision)
    return t


def _prime(p):
    """history: the process has been asked for compositions with multipliers, for labelled and rounded values of the same
    modifications before (all of them queries; none of them may change a later answer)"""
    for fn in (lambda: p.comp('[Formula:C2H2O]^2?PEK'), lambda: p.mod_comp(p.Mod('Formula:C2H2O', 3)),
               lambda: p.mod_comp(p.Mod('Acetyl', 2)), lambda: p.mass('<13C>[Formula:C2H2O]^2?PEK'),
               lambda: p.mod_mass('Oxidation', False, 1), lambda: p.mass('PEK[Oxidation]^2', monoisotopic=False, precision=0),
               lambda: p.mod_comp(p.Mod('Glycan:Hex', 2)), lambda: p.apply_isotope_mods_to_composition('C2H2O', ['13C'])):
        lib.call(fn)


def check(case, ctx):
    p = lib.pt()
    _prime(p)
    if case['kind'] == 'dev':
        slots = case['slots']
        shape = {k: v for k, v in slots.items() if k in SHAPE_AXES}
        if 'cstr' in slots:
            shape['charge'] = [slots['cstr'][0], None, slots['cstr'][1]]
        P = c01.build(case['seq'], shape)
        s = pmodel.render(P, False)
        mono = not slots.get('avg', False)
        kw = {}
        ref_kw = {}
        if 'charge_arg' in slots:
            kw['charge'] = ref_kw['charge'] = slots['charge_arg']
        if 'adducts_arg' in slots:
            kw['charge_adducts'] = ref_kw['adducts'] = slots['adducts_arg']
        if 'ion' in slots:
            kw['ion_type'] = ref_kw['ion'] = slots['ion']
        if 'isotope' in slots:
            kw['isotope'] = ref_kw['isotope'] = slots['isotope']
        if 'loss' in slots:
            kw['loss'] = ref_kw['loss'] = slots['loss']
        prec = slots.get('precision')
        if prec is not None:
            kw['precision'] = prec   # the reference stays unrounded: |round(x) - ref| <= tol + 0.5*10^-p
        if not mono:
            kw['monoisotopic'] = False
        ref = refmass.ref_mass(P, mono=mono, **ref_kw)
        st, got = lib.call(p.mass, s, **kw)
        ctx.evals += 1
        tol = tol_for(mono, prec)
        call = ['mass', s, kw]
        nmods = refmass.n_mass_terms(P, ref_kw.get('ion', 'p'))
        adducts = ref_kw.get('adducts', P.get('adducts'))
        extra = {'dev': None}
        if st == 'ok' and isinstance(got, (int, float)):
            extra['dev'] = got - ref
        if st != 'ok' or not lib.close(got, ref, tol):
            ctx.fail('mass', ref, got, call=call, deviation=extra['dev'], adducts=adducts, monoisotopic=mono,
                     precision=prec, avg_minus_mono_of_mods=_avg_mono_gap(P, ref_kw.get('ion', 'p')))
        # the same request on ONE parsed object that was asked other things first (m/z at another charge, a fragment ion
        # mass, its composition): the answer is the answer for the text, and the object still writes the text
        if st == 'ok' and len(slots) <= 2:
            st0, obj = lib.call(p.parse, s)
            if st0 == 'ok':
                for q in (lambda: p.mz(obj, charge=3), lambda: p.mass(obj, charge=2, ion_type='b'), lambda: p.comp_mass(obj),
                          lambda: p.mz(obj, charge=1, monoisotopic=False)):
                    lib.call(q)
                a1 = lib.call(p.mass, obj, **kw)
                ctx.evals += 5
                if a1[0] != 'ok' or a1[1] != got:
                    ctx.fail('reused-object-mass', got, a1[1], call=call,
                             note='mz(charge=3), mass(charge=2, ion b), comp_mass, mz(charge=1, average) were asked of the object first')
                else:
                    st9, s9 = lib.call(obj.serialize)
                    if st9 != 'ok' or s9 != p.parse(s).serialize():
                        ctx.fail('reused-object-changed', p.parse(s).serialize(), s9, call=call)
        z = ref_kw.get('charge', P.get('charge'))
        if z is not None and z > 0:
            kw2 = dict(kw)
            kw2.pop('charge_adducts', None)
            ref_unrounded = refmass.ref_mass(P, mono=mono, **{k: v for k, v in ref_kw.items() if k != 'precision'})
            refz = ref_unrounded / z
            if 'adducts_arg' in slots:
                kw2['charge_adducts'] = slots['adducts_arg']
            st, gz = lib.call(p.mz, s, **kw2)
            ctx.evals += 1
            devz = (gz - refz) if st == 'ok' and isinstance(gz, (int, float)) else None
            if st != 'ok' or not lib.close(gz, refz, (1e-5 if mono else 2e-3) / z + (0.5 * 10 ** (-prec) if prec is not None else 0)):
                ctx.fail('mz', refz, gz, call=['mz', s, kw2], deviation=devz,
                         adducts=adducts, monoisotopic=mono, precision=prec, charge=z,
                         avg_minus_mono_of_mods=_avg_mono_gap(P, ref_kw.get('ion', 'p')))
        ctx.outcome = [s, sorted(kw.items(), key=str), round(ref, 4)]
    elif case['kind'] == 'labelled':
        P = {'seq': case['seq'], 'isotope': case['label']}
        if case['mod']:
            P['res'] = [[0, [[case['mod'], 1]]]]
        s = pmodel.render(P)
        ion = case['ion']
        n = 0
        for z in (None, 0, 1, 2, -1):
            st, base = lib.call(p.mass, s, charge=z, ion_type=ion)
            ctx.evals += 1
            if st != 'ok':
                ctx.fail('labelled-mass-raises', 'mass', base, call=['mass', s, z, ion])
                continue
            for loss in (-18.010565, 1.5):
                for iso in (0, 1, 3):
                    for prec in (None, 2, 6):
                        n += 1
                        st, m = lib.call(p.mass, s, charge=z, ion_type=ion, loss=loss, isotope=iso, precision=prec)
                        ctx.evals += 1
                        exp = base + loss + iso * refdata.NEUTRON
                        tol = 1e-9 + (0.5 * 10 ** (-prec) if prec is not None else 0)
                        if st != 'ok' or not lib.close(m, exp, tol):
                            ctx.fail('labelled-additive', exp, m, call=['mass', s, {'charge': z, 'ion_type': ion, 'loss': loss,
                                                                                    'isotope': iso, 'precision': prec}])
            if z is not None and z > 0:
                st, mz = lib.call(p.mz, s, charge=z, ion_type=ion)
                ctx.evals += 1
                if st != 'ok' or not lib.close(mz, base / z, 1e-9):
                    ctx.fail('labelled-mz', base / z, mz, call=['mz', s, z, ion])
        ctx.sub_states = n
        ctx.sub_nontrivial = n
        ctx.outcome = [s, ion]
    elif case['kind'] == 'letters':
        n = 0
        for s in case['seqs']:
            for mono in (True, False):
                st, got = lib.call(p.mass, s, monoisotopic=mono)
                ctx.evals += 1
                n += 1
                if 'B' in s or 'Z' in s:
                    if st != 'err' or not isinstance(got, ValueError):
                        ctx.fail('ambiguous-letter', 'ValueError', got, call=['mass', s, mono])
                    continue
                ref = refmass.ref_mass({'seq': s}, mono=mono)
                if st != 'ok' or not lib.close(got, ref, tol_for(mono, None)):
                    ctx.fail('residue-mass', ref, got, call=['mass', s, {'monoisotopic': mono}])
                for z in (1, 3):
                    st, got = lib.call(p.mz, s, charge=z, monoisotopic=mono)
                    ctx.evals += 1
                    refz = refmass.ref_mass({'seq': s}, charge=z, mono=mono) / z
                    if st != 'ok' or not lib.close(got, refz, tol_for(mono, None)):
                        ctx.fail('residue-mz', refz, got, call=['mz', s, {'charge': z, 'monoisotopic': mono}])
        ctx.sub_states = n
        ctx.sub_nontrivial = n
        ctx.outcome = case['seqs'][0]
    else:
        from checks import c10
        base = p.mass('K')
        n = 0
        for e in obo.unimod():
            comp = c10._expand(e['comp']) if e['comp'] is not None else None
            for sp in ('U:' + e['acc'],):
                st, got = lib.call(p.mass, f'K[{sp}]')
                ctx.evals += 1
                n += 1
                if st != 'ok' or not lib.close(got - base, e['mono'], 1e-8):
                    ctx.fail('unimod-lookup', e['mono'], got if st != 'ok' else got - base, call=['mass', f'K[{sp}]'],
                             subcase=None)
                if comp is not None and not lib.close(e['mono'], refdata.comp_mass(comp, True), 5e-5):
                    ctx.fail('unimod-table-vs-nist', refdata.comp_mass(comp, True), e['mono'], entry=e['name'])
                st, got2 = lib.call(p.mass, f'K[{sp}]^2')
                ctx.evals += 1
                if st != 'ok' or not lib.close(got2 - base, 2 * e['mono'], 1e-8):
                    ctx.fail('unimod-multiplier', 2 * e['mono'], got2 if st != 'ok' else got2 - base,
                             call=['mass', f'K[{sp}]^2'])
        ctx.sub_states = n
        ctx.sub_nontrivial = n
        ctx.outcome = n


def _avg_mono_gap(P, ion):
    """sum over non-static modification terms of (average - monoisotopic) mass: the deviation D4 predicts"""
    gap = 0.0
    for key in ('unknown', 'nterm', 'cterm'):
        for m in P.get(key) or []:
            gap += (catalogue.mass_of(m[0], False) - catalogue.mass_of(m[0], True)) * m[1]
    if ion == 'p':
        for m in P.get('labile') or []:
            gap += (catalogue.mass_of(m[0], False) - catalogue.mass_of(m[0], True)) * m[1]
    for _i, ms in P.get('res', []):
        for m in ms:
            gap += (catalogue.mass_of(m[0], False) - catalogue.mass_of(m[0], True)) * m[1]
    for iv in P.get('iv') or []:
        for m in iv[3] or []:
            gap += (catalogue.mass_of(m[0], False) - catalogue.mass_of(m[0], True)) * m[1]
    return gap


# ---- known findings ---------------------------------------------------------------------------------------------
def d5_prediction(adducts):
    """library - reference = sum over adduct ions of (n-1)*q*m_e (one electron removed per ion *kind*, not per ion)."""
    if not adducts:
        return None
    if adducts == '+H+':
        return 0.0
    dev = 0.0
    for n, ion in refmass.parse_adducts(adducts):
        el, q = refdata.ADDUCT_IONS[ion]
        if el is None:
            continue
        d = (n - 1) * q * refdata.ELECTRON
        if ion == 'H+':
            # a proton is written H+ : the library uses M(H) - m_e, the reference the CODATA proton mass
            d += n * (refdata.MONO['H'] - refdata.ELECTRON - refdata.PROTON) * 0
        dev += d
    return dev


def _d5(case, f):
    if f['clause'] not in ('mass', 'mz') or f.get('deviation') is None:
        return False
    pred = d5_prediction(f.get('adducts'))
    if pred is None or abs(pred) < 1e-12:
        return False
    # the observed deviation must equal the predicted one within the property's own tolerance (plus one unit in the
    # last place when both sides were rounded to `precision`)
    z = f.get('charge') if f['clause'] == 'mz' else 1
    base = (1e-5 if f.get('monoisotopic', True) else 2e-3) / z
    if f.get('precision') is not None:
        base += 0.5 * 10 ** (-f['precision'])
    return abs(f['deviation'] - pred / z) <= base


CLASSIFIERS = {'D5': _d5}
