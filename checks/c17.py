"""C17 — spectrum matching pairs each fragment with exactly the peaks in tolerance.

Space (b): every pair of sorted lists (with repetitions) over a dyadic m/z grid up to length L x tolerance type x
tolerance x mode (x every intensity assignment for 'largest'); fragment-match layer over every permutation of <=3
fragments x <=3 peaks.  Oracle: quadratic brute-force matcher."""
import itertools

from mc import lib

CASE_TIMEOUT_S = 600      # wall-clock horizon per state (states of this check bundle many sub-states; generous for loaded machines)
PROPERTY = 'C17'
RULE = ('full product: every sorted list (multiset) A of length 0..L over the grid {50,100,100.25,100.5,101,102,200} x every '
        'such list B x {th: 0,0.25,0.5,1,150; ppm: 0,2500,5000,10000,1e6} x {all,closest,largest} x every intensity '
        'assignment over {0,1,2,5}; fragment layer: every subset of <=3 of 6 real fragments in every order x every subset '
        'of <=3 of 6-8 peaks (one duplicate m/z, one zero intensity) in every order x tolerance x mode; long layer: pairs of '
        'arithmetic progressions of length 0..30 on the dyadic grid (5 lengths x 5 steps x 5 offsets each side) x 10 '
        'tolerances x 3 modes; a state = one list A (all B inside); non-trivial = A '
        'non-empty')
ASSUMPTIONS = ['window bounds are computed with the expression of the statement (mz +- tol, or mz*tol/1e6 for ppm) in '
               'IEEE double arithmetic; grid values and Th tolerances are dyadic so inclusive bounds are unambiguous',
               'coverage clause is evaluated where every fragment has at most one matched peak (both readings of '
               '"once" coincide there); intensity-share clause on spectra without duplicate m/z values']

GRID = [50.0, 100.0, 100.25, 100.5, 101.0, 102.0, 200.0]   # 50: a theoretical value beyond twice the last peak
TH = [0.0, 0.25, 0.5, 1.0, 150.0]
PPM = [0.0, 2500.0, 5000.0, 10000.0, 1e6]
INT = [0.0, 1.0, 2.0, 5.0]   # 0: profile-mode spectra carry zero-intensity points


# upper part of the quantifier (lists up to length 30): arithmetic progressions on the dyadic grid, every combination of
# length, step and offset for both lists, so that windows overlap, nest, tie and run past either end
LONG_N = [0, 1, 2, 7, 30]
LONG_STEP = [0.0, 0.25, 0.5, 1.0, 1.5]
LONG_OFF = [0.0, 0.25, -0.25, -8.0, 8.0]
LONG_TH = [0.0, 0.25, 0.5, 1.0, 4.0, 150.0]
LONG_PPM = [0.0, 2500.0, 10000.0, 1e6]


def describe(tier):
    return {'max_len': 4 if tier == 'thorough' else 3, 'grid': GRID, 'th': TH, 'ppm': PPM, 'intensities': INT,
            'long_layer': {'lengths': LONG_N, 'steps': LONG_STEP, 'offsets': LONG_OFF, 'th': LONG_TH, 'ppm': LONG_PPM,
                           'form': 'A = [100 + i*step], B = [100 + off + j*step2], all modes, two intensity patterns'}}


def lists(L):
    for n in range(0, L + 1):
        for t in itertools.combinations_with_replacement(GRID, n):
            yield list(t)


def shards(tier):
    L = describe(tier)['max_len']
    out = [{'kind': 'pairs', 'a': a} for a in lists(L)]
    out += [{'kind': 'frag', 'nf': nf, 'first': i} for nf in (1, 2, 3) for i in range(6)]
    out += [{'kind': 'frag', 'nf': nf, 'first': i, 'family': 'iso'} for nf in (2, 3) for i in range(6)]
    out += [{'kind': 'frag', 'nf': nf, 'first': i, 'family': 'mixed'} for nf in (2, 3) for i in range(6)]
    out += [{'kind': 'frag', 'nf': nf, 'first': i, 'family': 'tie'} for nf in (2, 3) for i in range(6)]
    out.append({'kind': 'frag0'})
    out += [{'kind': 'long', 'n': n, 'step': a} for n in LONG_N for a in LONG_STEP]
    return out


def gen(shard, tier):
    if shard['kind'] == 'pairs':
        yield {'kind': 'pairs', 'a': shard['a'], 'L': describe(tier)['max_len']}, len(shard['a']), len(shard['a']) > 0
    elif shard['kind'] == 'long':
        yield {'kind': 'long', 'n': shard['n'], 'step': shard['step']}, shard['n'], shard['n'] > 0
    elif shard['kind'] == 'frag0':
        yield {'kind': 'frag', 'fr': [], 'tier': tier}, 0, False
    else:
        nf, i = shard['nf'], shard['first']
        for rest in itertools.permutations([j for j in range(6) if j != i], nf - 1):
            c = {'kind': 'frag', 'fr': [i] + list(rest), 'tier': tier}
            if shard.get('family'):
                c['family'] = shard['family']
            yield c, nf, True


def window(a, tol, typ):
    off = tol if typ == 'th' else a * tol / 1e6
    return a - off, a + off


def brute(A, B, tol, typ):
    out = []
    for a in A:
        lo, hi = window(a, tol, typ)
        out.append([j for j, b in enumerate(B) if lo <= b <= hi])
    return out


def _long(case, ctx, p):
    A = [100.0 + i * case['step'] for i in range(case['n'])]
    nsub = nmatch = 0
    for m in LONG_N:
        for step2 in LONG_STEP:
            for off in LONG_OFF:
                B = [100.0 + off + j * step2 for j in range(m)]
                pats = [[INT[(j + 1) % 4] for j in range(m)], [INT[(3 * j) % 4] for j in range(m)]]
                for typ, tols in (('th', LONG_TH), ('ppm', LONG_PPM)):
                    for tol in tols:
                        nsub += 1
                        exp = brute(A, B, tol, typ)
                        nmatch += sum(map(len, exp))
                        st, got = lib.call(p.get_matched_indices, list(A), list(B), tol, typ)
                        e1 = [None if not x else (x[0], x[-1] + 1) for x in exp]
                        if st != 'ok' or [None if g is None else tuple(g) for g in got] != e1:
                            ctx.fail('get_matched_indices', e1, got, call=[A, B, tol, typ])
                        st, got = lib.call(p.match_spectra, list(A), list(B), tol, typ, 'all')
                        e2 = [None if not x else x for x in exp]
                        if st != 'ok' or got != e2:
                            ctx.fail('match-all', e2, got, call=[A, B, tol, typ, 'all'])
                        st, got = lib.call(p.match_spectra, list(A), list(B), tol, typ, 'closest')
                        ok = st == 'ok' and len(got) == len(A)
                        if ok:
                            for a, x, g in zip(A, exp, got):
                                if not x:
                                    ok = ok and g is None
                                else:
                                    ok = ok and g in x and abs(a - B[g]) == min(abs(a - B[j]) for j in x)
                        if not ok:
                            ctx.fail('match-closest', exp, got, call=[A, B, tol, typ, 'closest'])
                        ctx.evals += 3
                        for ints in pats:
                            st, got = lib.call(p.match_spectra, list(A), list(B), tol, typ, 'largest', list(ints))
                            ctx.evals += 1
                            ok = st == 'ok' and len(got) == len(A)
                            if ok:
                                for x, g in zip(exp, got):
                                    if not x:
                                        ok = ok and g is None
                                    else:
                                        ok = ok and g in x and ints[g] == max(ints[j] for j in x)
                            if not ok:
                                ctx.fail('match-largest', exp, got, call=[A, B, tol, typ, 'largest', list(ints)])
    ctx.sub_states = nsub
    ctx.sub_nontrivial = nsub if A else 0
    ctx.outcome = [case['n'], case['step'], nmatch]


def check(case, ctx):
    p = lib.pt()
    if case['kind'] == 'long':
        return _long(case, ctx, p)
    if case['kind'] == 'pairs':
        A = case['a']
        nmatch = 0
        nsub = 0
        for B in lists(case['L']):
            for typ, tols in (('th', TH), ('ppm', PPM)):
                for tol in tols:
                    nsub += 1
                    exp = brute(A, B, tol, typ)
                    nmatch += sum(map(len, exp))
                    st, got = lib.call(p.get_matched_indices, list(A), list(B), tol, typ)
                    ctx.evals += 1
                    e1 = [None if not m else (m[0], m[-1] + 1) for m in exp]
                    if st != 'ok' or [None if g is None else tuple(g) for g in got] != e1:
                        ctx.fail('get_matched_indices', e1, got, call=[A, B, tol, typ])
                    st, got = lib.call(p.match_spectra, list(A), list(B), tol, typ, 'all')
                    ctx.evals += 1
                    e2 = [None if not m else m for m in exp]
                    if st != 'ok' or got != e2:
                        ctx.fail('match-all', e2, got, call=[A, B, tol, typ, 'all'])
                    st, got = lib.call(p.match_spectra, list(A), list(B), tol, typ, 'closest')
                    ctx.evals += 1
                    ok = st == 'ok' and len(got) == len(A)
                    if ok:
                        for a, m, g in zip(A, exp, got):
                            if not m:
                                ok = ok and g is None
                            else:
                                best = min(abs(a - B[j]) for j in m)
                                ok = ok and g in m and abs(a - B[g]) == best
                    if not ok:
                        ctx.fail('match-closest', exp, got, call=[A, B, tol, typ, 'closest'])
                    if tol in (0.5, 5000.0, 150.0, 1e6) or len(B) <= 2:
                        for ints in itertools.product(INT, repeat=len(B)):
                            st, got = lib.call(p.match_spectra, list(A), list(B), tol, typ, 'largest', list(ints))
                            ctx.evals += 1
                            ok = st == 'ok' and len(got) == len(A)
                            if ok:
                                for m, g in zip(exp, got):
                                    if not m:
                                        ok = ok and g is None
                                    else:
                                        ok = ok and g in m and ints[g] == max(ints[j] for j in m)
                            if not ok:
                                ctx.fail('match-largest', exp, got, call=[A, B, tol, typ, 'largest', list(ints)])
            # the same lists and the same number as tolerance, asked in Th, then in ppm, then in Th again (a history of
            # three calls): each answer is the brute-force answer for its own tolerance type
            for tol in (0.5, 100.0):
                for typ in ('th', 'ppm', 'th'):
                    exp = brute(A, B, tol, typ)
                    e2 = [None if not m else m for m in exp]
                    st, got = lib.call(p.match_spectra, list(A), list(B), tol, typ, 'all')
                    ctx.evals += 1
                    if st != 'ok' or got != e2:
                        ctx.fail('match-all-after-other-tolerance-type', e2, got, call=[A, B, tol, typ, 'all'])
        ctx.sub_states = nsub          # one sub-state per (A, B, tolerance type, tolerance)
        ctx.sub_nontrivial = nsub if A else 0
        ctx.outcome = [A, nmatch]
    else:
        if case.get('family') == 'iso':
            # doubly charged isotope peaks: neighbouring fragments are 0.5 Th apart, so two fragments share peaks
            frs_all = p.fragment('PEPK', ['b'], [2], isotopes=[0, 1, 2])
            frs_all = sorted(frs_all, key=lambda f: (f.start, f.end, f.isotope))[-6:]
            base = sorted(f.mz for f in frs_all)
            peaks_all = [base[0] + 0.1, base[0] + 0.4, base[1] + 0.3, base[3] + 0.05, base[3] + 0.45, 5000.0]
            ints_all = [1.0, 2.0, 5.0, 2.0, 1.0, 5.0]
            tolerances = (('th', 0.3), ('th', 0.6), ('th', 1.2), ('ppm', 3000.0))
        elif case.get('family') == 'tie':
            # distinct fragments with exactly the same m/z: immonium ions of a repeated residue, and b1 next to them
            frs_all = p.fragment('PEPEK', ['i'], [1]) + p.fragment('PEPEK', ['b'], [1])[-2:]
            frs_all = sorted(frs_all, key=lambda f: (f.ion_type, f.start, f.end))[:6]
            base = sorted(set(f.mz for f in frs_all))
            peaks_all = [base[0], base[0] + 0.2, base[1], base[1] - 0.1, base[-1] + 0.05, 5000.0]
            ints_all = [1.0, 2.0, 5.0, 2.0, 1.0, 3.0]
            tolerances = (('th', 0.0), ('th', 0.25), ('ppm', 3000.0))
        elif case.get('family') == 'mixed':
            # singly and doubly charged ions of the same spans: ordering by m/z differs from ordering by mass
            frs_all = p.fragment('PEPK', ['b', 'y'], [1, 2])
            frs_all = sorted(frs_all, key=lambda f: (f.ion_type, f.start, f.end, f.charge))[2:8]
            base = sorted(f.mz for f in frs_all)
            peaks_all = [base[0] + 0.1, base[1], base[2] - 0.2, base[3] + 0.05, base[4] + 0.3, base[5], 5000.0]
            ints_all = [1.0, 2.0, 5.0, 2.0, 1.0, 5.0, 3.0]
            tolerances = (('th', 0.0), ('th', 0.3), ('ppm', 3000.0))
        else:
            frs_all = p.fragment('PEPK', ['b', 'y'], 1)   # real Fragment objects: b4,b3,b2,b1,y4..y1
            frs_all = sorted(frs_all, key=lambda f: (f.ion_type, f.start, f.end))[:6]
            base = sorted(f.mz for f in frs_all)
            # peaks: exactly on fragment 0, +0.25 above fragment 1, between, far away, and 0.5 below fragment 2
            # ... plus a second peak at exactly the m/z of peak 0 (merged scans) and a zero-intensity point
            peaks_all = [base[0], base[1] + 0.25, base[2] - 0.5, base[3] + 0.125, 5000.0, base[0] + 0.5, base[0],
                         base[1] + 0.125]
            ints_all = [1.0, 2.0, 5.0, 2.0, 1.0, 5.0, 3.0, 0.0]
            tolerances = (('th', 0.0), ('th', 0.25), ('th', 0.5), ('ppm', 0.0), ('ppm', 2000.0))
        chosen = [frs_all[i] for i in case['fr']]
        nm = 0
        nsub = 0
        for npk in (0, 1, 2, 3):
            for pk in itertools.permutations(range(len(peaks_all)), npk):
                mzs = [peaks_all[j] for j in pk]
                ints = [ints_all[j] for j in pk]
                for typ, tol in tolerances:
                    for mode in ('all', 'closest', 'largest'):
                        nsub += 1
                        if npk == 0:
                            # empty spectrum: nothing can match
                            st, got = lib.call(p.get_fragment_matches, list(chosen), [], [], tol, typ, mode)
                            ctx.evals += 1
                            if st != 'ok' or len(got) != 0:
                                ctx.fail('fragment-matches-empty', [], got, call=[case['fr'], [], tol, typ, mode])
                            continue
                        st, got = lib.call(p.get_fragment_matches, list(chosen), list(mzs), list(ints), tol, typ, mode)
                        ctx.evals += 1
                        if st == 'ok' and mode == 'all':
                            # the caller's own lists passed twice: they are left as they were and the answer is the same
                            F, M, I = list(chosen), list(mzs), list(ints)
                            r1 = lib.call(p.get_fragment_matches, F, M, I, tol, typ, 'largest')
                            r2 = lib.call(p.get_fragment_matches, F, M, I, tol, typ, mode)
                            ctx.evals += 2
                            k0 = sorted((x.fragment.label, x.mz, x.intensity) for x in got)
                            k2 = sorted((x.fragment.label, x.mz, x.intensity) for x in r2[1]) if r2[0] == 'ok' else str(r2[1])
                            if M != list(mzs) or I != list(ints) or [id(x) for x in F] != [id(x) for x in chosen]:
                                ctx.fail('fragment-matches-reorder-the-arguments', [list(mzs), list(ints)], [M, I],
                                         call=[case['fr'], mzs, ints, tol, typ, mode])
                            elif k2 != k0:
                                ctx.fail('fragment-matches-second-call', k0, k2, call=[case['fr'], mzs, ints, tol, typ, mode])
                        if st != 'ok':
                            ctx.fail('fragment-matches-raises', 'list', got, call=[case['fr'], mzs, ints, tol, typ, mode])
                            continue
                        # brute force expectation as a set of admissible (fragment, peak) pairs
                        exp_sets = {}
                        for f in chosen:
                            lo, hi = window(f.mz, tol, typ)
                            exp_sets[id(f)] = [j for j, b in enumerate(mzs) if lo <= b <= hi]
                        gotpairs = sorted((m.fragment.label, m.mz, m.intensity) for m in got)
                        nm += len(gotpairs)
                        ok = True
                        if mode == 'all':
                            exp = sorted((f.label, mzs[j], ints[j]) for f in chosen for j in exp_sets[id(f)])
                            ok = gotpairs == exp
                        else:
                            byfrag = {}
                            for m in got:
                                byfrag.setdefault(m.fragment.label, []).append(m)
                            for f in chosen:
                                ms = byfrag.get(f.label, [])
                                cand = exp_sets[id(f)]
                                if not cand:
                                    ok = ok and not ms
                                    continue
                                ok = ok and len(ms) == 1
                                if ok:
                                    g = ms[0]
                                    if mode == 'closest':
                                        best = min(abs(f.mz - mzs[j]) for j in cand)
                                        ok = any(mzs[j] == g.mz and ints[j] == g.intensity and
                                                 abs(f.mz - mzs[j]) == best for j in cand)
                                    else:
                                        best = max(ints[j] for j in cand)
                                        ok = any(mzs[j] == g.mz and ints[j] == g.intensity and ints[j] == best
                                                 for j in cand)
                        if not ok:
                            ctx.fail('fragment-matches', {f.label: [mzs[j] for j in exp_sets[id(f)]] for f in chosen},
                                     gotpairs, call=[case['fr'], mzs, ints, tol, typ, mode])
                            continue
                        if len(set(mzs)) < len(mzs) or sum(ints) == 0:
                            continue     # share / coverage clauses: spectra without duplicate m/z and with some intensity
                        # intensity share: distinct matched peaks / total
                        matched_peaks = sorted(set(j for j in range(len(mzs)) if any(m.mz == mzs[j] for m in got)))
                        share = sum(ints[j] for j in matched_peaks) / sum(ints)
                        st, s = lib.call(p.get_matched_intensity_percentage, list(got), list(ints))
                        ctx.evals += 1
                        if st != 'ok' or not lib.close(s, share, 1e-12) or not (0 <= s <= 1):
                            ctx.fail('intensity-share', share, s, call=[case['fr'], mzs, ints, tol, typ, mode])
                        # coverage, where every fragment has at most one matched peak
                        if got and all(len(exp_sets[id(f)]) <= 1 for f in chosen) or (got and mode != 'all'):
                            st, cov = lib.call(p.get_match_coverage, list(got))
                            ctx.evals += 1
                            expcov = {}
                            seen = set()
                            for m in got:
                                f = m.fragment
                                if f.label in seen:
                                    continue
                                seen.add(f.label)
                                lab = '+' * f.charge + f.ion_type
                                arr = expcov.setdefault(lab, [0] * len(f.parent_sequence))
                                for i in range(f.start, f.end):
                                    arr[i] += 1
                            if st != 'ok' or cov != expcov:
                                ctx.fail('match-coverage', expcov, cov, call=[case['fr'], mzs, ints, tol, typ, mode])
        ctx.sub_states = nsub          # one sub-state per (fragment order, peak order, tolerance, mode)
        ctx.sub_nontrivial = nsub if chosen else 0
        ctx.outcome = [case['fr'], nm]


CLASSIFIERS = {}
