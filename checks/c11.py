"""C11 — reordering and cutting a peptide moves modifications with their residues.

Space (a)+(c): abstract peptides (traceable tags on residues) x every reverse / shift / shuffle / sort / slice / split
operation, each through the string function and the annotation method, inplace False and True; algebraic laws."""
import itertools

from mc import lib, pmodel, space, refmass
from checks import c01

PROPERTY = 'C11'
RULE = ('deviation-bounded product space over 11 slots (3 tagged residue modifications, N-term, C-term, labile, static, '
        'isotope, unknown, charge, interval layouts at start / middle / end / two adjacent) on all strings over {A,K} of '
        'length 1..L (bound 2) and on strings with pairwise distinct residues of length 1..Ld (bound 3); on every state: '
        'reverse (+-swap_terms), every shift in [-2n,2n], shuffle seeds 0..7, sort, every slice 0<=i<=j<=n, split, '
        'through function and method, inplace False/True; non-trivial = at least one slot set')
ASSUMPTIONS = ['slice clause: cuts that fall strictly inside an interval are outside the quantifier; globals (labile, static, '
               'isotope, unknown, charge) are carried by a slice as the library documents, only residue/terminal/interval '
               'content is prescribed', 'split/concatenation clause on interval-free peptides; concatenation on peptides '
               'without global annotations', 'shuffle: the permutation is observed through distinct residues / tags']

DISTINCT = ['P', 'PE', 'PEK', 'PEKT', 'PEKTW', 'PEKTWM']
AXES = ['r0', 'rmid', 'rlast', 'nterm', 'cterm', 'labile', 'static', 'isotope', 'unknown', 'charge', 'iv']


def values_at(axis, level, n):
    if axis == 'r0':
        return [[['1', 1]], [['1', 2], ['Oxidation', 1]]] if level <= 2 else [[['1', 1]]]
    if axis == 'rmid':
        return [[['2', 1]]]
    if axis == 'rlast':
        return [[['3', 1]], [['3', 1], ['1', 1]]] if level <= 2 else [[['3', 1]]]
    if axis == 'nterm':
        return [[['Acetyl', 1]]]
    if axis == 'cterm':
        return [[['Amidated', 1]]]
    if axis == 'labile':
        return [[['Glycan:Hex', 1]]]
    if axis == 'static':
        return [[{'mods': [['Carbamidomethyl', 1]], 'targets': ['K']}], [{'mods': [['10', 1]], 'targets': ['N-Term']}]]
    if axis == 'isotope':
        return [['13C']]
    if axis == 'unknown':
        return [[['Phospho', 1]]]
    if axis == 'charge':
        return [[2, None, None], [1, None, '+Na+']]
    if axis == 'iv':
        out = []
        spans = [(0, 1), (0, n)] if n < 3 else [(0, 2), (1, 2), (1, n - 1), (n - 2, n), (0, n)]
        spans = sorted(set((a, b) for a, b in spans if 0 <= a < b <= n))
        for (a, b) in spans:
            out.append([[a, b, False, [['7', 1]]]])
            out.append([[a, b, True, None]])
        if n >= 3:
            out.append([[0, 1, False, [['7', 1]]], [1, n, True, [['8', 1]]]])
            out.append([[0, 1, False, None], [n - 1, n, False, [['8', 2]]]])
        return out
    raise KeyError(axis)


def describe(tier):
    th = tier == 'thorough'
    return {'L': 5 if th else 4, 'Ld': 6 if th else 5, 'bound_AK': 2, 'bound_distinct': 3, 'axes': AXES,
            'long_base': 'PEMKACDFGHIK at deviation <= %d' % (2 if th else 1)}


def axes_for(n):
    ax = list(AXES)
    if n < 3:
        ax.remove('rmid')
    if n < 2:
        ax.remove('rlast')
    return ax


def shards(tier):
    d = describe(tier)
    out = []
    for n in range(1, d['L'] + 1):
        for t in itertools.product('AK', repeat=n):
            for sh in space.dev_shards(axes_for(n), d['bound_AK']):
                sh['seq'] = ''.join(t)
                out.append(sh)
    for seq in DISTINCT[:d['Ld']]:
        for sh in space.dev_shards(axes_for(len(seq)), d['bound_distinct']):
            if all(c in 'AK' for c in seq):
                continue
            sh['seq'] = seq
            out.append(sh)
    # one long peptide (positions, shift amounts and interval bounds with two digits) at deviation <= 1 / 2
    for sh in space.dev_shards(axes_for(len(LONG_BASE)), 2 if tier == 'thorough' else 1):
        sh['seq'] = LONG_BASE
        out.append(sh)
    return out


LONG_BASE = 'PEMKACDFGHIK'


def gen(shard, tier):
    seq = shard['seq']
    n = len(seq)
    k = shard['k']
    for slots in space.dev_states(shard, lambda a, lv: values_at(a, lv, n)):
        yield {'seq': seq, 'slots': slots}, k, k > 0


# ---- model operations on the abstract peptide -------------------------------------------------------------------
def units(P):
    res = {int(i): ms for i, ms in P.get('res', [])}
    return [(aa, sorted(map(tuple, res.get(i, [])))) for i, aa in enumerate(P['seq'])]


def permuted(P, perm):
    """perm[new] = old"""
    Q = {k: v for k, v in P.items() if k not in ('res',)}
    Q['seq'] = ''.join(P['seq'][o] for o in perm)
    res = {int(i): ms for i, ms in P.get('res', [])}
    new = [[ni, res[o]] for ni, o in enumerate(perm) if o in res]
    if new:
        Q['res'] = new
    return Q


def m_reverse(P, swap):
    n = len(P['seq'])
    Q = permuted(P, list(range(n - 1, -1, -1)))
    if P.get('iv'):
        Q['iv'] = [[n - b, n - a, amb, ms] for a, b, amb, ms in P['iv']]
    if swap:
        nt, ct = P.get('nterm'), P.get('cterm')
        Q.pop('nterm', None)
        Q.pop('cterm', None)
        if ct:
            Q['nterm'] = ct
        if nt:
            Q['cterm'] = nt
    return Q


def m_shift(P, k):
    n = len(P['seq'])
    e = k % n
    return permuted(P, [(i + e) % n for i in range(n)])


def m_slice(P, i, j):
    n = len(P['seq'])
    Q = {k: v for k, v in P.items() if k not in ('res', 'iv', 'nterm', 'cterm')}
    Q['seq'] = P['seq'][i:j]
    res = [[int(x) - i, ms] for x, ms in P.get('res', []) if i <= int(x) < j]
    if res:
        Q['res'] = res
    if i == 0 and P.get('nterm'):
        Q['nterm'] = P['nterm']
    if j == n and P.get('cterm'):
        Q['cterm'] = P['cterm']
    iv = [[a - i, b - i, amb, ms] for a, b, amb, ms in (P.get('iv') or []) if i <= a and b <= j]
    if iv:
        Q['iv'] = iv
    return Q


def cuts_inside(P, i, j):
    return any(a < c < b for a, b, _, _ in (P.get('iv') or []) for c in (i, j))


def cmp(ctx, clause, expP, ann, **info):
    """compare a library annotation with an expected abstract peptide (fields the clause prescribes)"""
    if ann is None or not hasattr(ann, 'sequence'):
        ctx.fail(clause, pmodel.render(expP), ann, **info)
        return False
    d = pmodel.diff(pmodel.expected(expP), pmodel.observed(ann))
    if d:
        ctx.fail(clause, pmodel.render(expP), ann.serialize(), diff=d, **info)
        return False
    return True


def both_ways(ctx, p, P, s, opname, method, margs, func, fargs, expP, clause, check_inplace=True, only=None):
    """run the operation as annotation method (inplace False and True) and as string function; compare all with expP.
    `only`: restrict comparison to these observed fields (weaker clauses)."""
    results = []
    a = p.parse(s)
    st, r1 = lib.call(getattr(a, method), *margs)
    ctx.evals += 1
    results.append(('method', st, r1))
    if check_inplace:
        a2 = p.parse(s)
        st, _ = lib.call(getattr(a2, method), *margs, inplace=True)
        ctx.evals += 1
        results.append(('method-inplace', st, a2 if st == 'ok' else _))
    if func is not None:
        st, rs = lib.call(getattr(p, func), s, *fargs)
        ctx.evals += 1
        if st == 'ok':
            st2, ra = lib.call(p.parse, rs)
            results.append(('function', st2, ra))
        else:
            results.append(('function', st, rs))
    ok = True
    for how, st, r in results:
        if st != 'ok':
            ctx.fail(clause + '-raises', pmodel.render(expP) if expP else None, r, op=opname, how=how, text=s)
            ok = False
            continue
        if expP is not None:
            e = pmodel.expected(expP)
            o = pmodel.observed(r)
            if only:
                e = {k: e[k] for k in only}
            d = pmodel.diff(e, o)
            if d:
                ctx.fail(clause, pmodel.render(expP), r.serialize(), op=opname, how=how, text=s, diff=d)
                ok = False
    return results, ok


def check(case, ctx):
    p = lib.pt()
    P = c01.build(case['seq'], case['slots'])
    s = pmodel.render(P)
    n = len(P['seq'])
    has_iv = bool(P.get('iv'))
    has_global = any(P.get(k) for k in ('labile', 'static', 'isotope', 'unknown')) or P.get('charge') is not None
    m0 = lib.call(p.mass, s)
    u0 = sorted(units(P))
    nops = 0

    def perm_invariants(r, opname):
        """a permutation: multiset of (residue, own mods) and the mass are unchanged, globals/terminals untouched"""
        o = pmodel.observed(r)
        seq2 = o['sequence']
        res2 = o['internal'] or {}
        u2 = sorted([aa, sorted([v, m] for v, m in (res2.get(str(i)) or []))] for i, aa in enumerate(seq2))
        ue = sorted([aa, sorted([repr(pmodel.numval(t)), m] for t, m in ms)] for aa, ms in u0)
        if u2 != ue:
            ctx.fail('permutation-units', ue, u2, op=opname, text=s, result=r.serialize())
        e = pmodel.expected(P)
        for k in ('labile', 'static', 'isotope', 'unknown', 'charge', 'adducts', 'nterm', 'cterm'):
            if e[k] != o[k]:
                ctx.fail('permutation-globals', e[k], o[k], field=k, op=opname, text=s, result=r.serialize())
        m1 = lib.call(p.mass, r)
        if m0[0] == 'ok' and (m1[0] != 'ok' or not lib.close(m0[1], m1[1], 1e-6)):
            ctx.fail('permutation-mass', m0[1], m1[1], op=opname, text=s, result=r.serialize())

    # ---- reverse
    for swap in (False, True):
        expP = m_reverse(P, swap)
        # method signature: reverse(inplace=False, swap_terms=False) -> call explicitly
        a = p.parse(s)
        st, r = lib.call(a.reverse, swap_terms=swap)
        a2 = p.parse(s)
        st2, _ = lib.call(a2.reverse, inplace=True, swap_terms=swap)
        st3, rs = lib.call(p.reverse, s, swap)
        ctx.evals += 3
        nops += 1
        for how, stx, rx in (('method', st, r), ('method-inplace', st2, a2), ('function', st3, rs)):
            if stx != 'ok':
                ctx.fail('reverse-raises', pmodel.render(expP), rx if how != 'method-inplace' else _, how=how, text=s)
                continue
            if how == 'function':
                stp, rx = lib.call(p.parse, rx)
                if stp != 'ok':
                    ctx.fail('reverse-unparsable', pmodel.render(expP), rs, how=how, text=s, swap_terms=swap)
                    continue
            cmp(ctx, 'reverse', expP, rx, how=how, text=s, swap_terms=swap, has_intervals=has_iv)
        if st == 'ok' and not swap:
            # start from a non-initial state: every slice and a shift of the reversed annotation
            for i2 in range(0, n + 1):
                for j2 in range(i2, n + 1):
                    if cuts_inside(expP, i2, j2):
                        continue
                    st5, rs5 = lib.call(r.slice, i2, j2)
                    ctx.evals += 1
                    e5 = pmodel.expected(m_slice(expP, i2, j2))
                    if st5 != 'ok' or pmodel.diff({f: e5[f] for f in ['sequence', 'internal', 'nterm', 'cterm', 'intervals']},
                                                   pmodel.observed(rs5)):
                        ctx.fail('slice-after-reverse', pmodel.render(m_slice(expP, i2, j2)),
                                 rs5.serialize() if st5 == 'ok' else rs5, text=s, span=[i2, j2], has_intervals=has_iv)
            st6, r6 = lib.call(r.shift, 1)
            e6 = pmodel.expected(m_shift(expP, 1))
            if st6 != 'ok' or pmodel.diff({f: e6[f] for f in ['sequence', 'internal', 'nterm', 'cterm']}, pmodel.observed(r6)):
                ctx.fail('shift-after-reverse', pmodel.render(m_shift(expP, 1)), r6.serialize() if st6 == 'ok' else r6,
                         text=s)
        if st == 'ok':
            if not swap:
                perm_invariants(r, 'reverse')
            st4, rr = lib.call(r.reverse, swap_terms=swap)
            ctx.evals += 1
            if st4 != 'ok' or not cmp(ctx, 'reverse-twice', P, rr, text=s, swap_terms=swap, has_intervals=has_iv):
                pass
    # ---- shift
    for k in range(-2 * n, 2 * n + 1):
        expP = m_shift(P, k)
        nops += 1
        a = p.parse(s)
        st, r = lib.call(a.shift, k)
        a2 = p.parse(s)
        st2, _ = lib.call(a2.shift, k, inplace=True)
        st3, rs = lib.call(p.shift, s, k)
        ctx.evals += 3
        only = ['sequence', 'internal', 'nterm', 'cterm', 'labile', 'static', 'isotope', 'unknown', 'charge', 'adducts']
        for how, stx, rx in (('method', st, r), ('method-inplace', st2, a2), ('function', st3, rs)):
            if stx != 'ok':
                ctx.fail('shift-raises', pmodel.render(expP), rx if how != 'method-inplace' else _, how=how, text=s, k=k)
                continue
            if how == 'function':
                if has_iv:
                    continue  # a shifted interval may be unrepresentable as text; the method results are compared
                stp, rx = lib.call(p.parse, rx)
                if stp != 'ok':
                    ctx.fail('shift-unparsable', pmodel.render(expP), rs, how=how, text=s, k=k)
                    continue
            e = pmodel.expected(expP)
            o = pmodel.observed(rx)
            d = pmodel.diff({f: e[f] for f in only}, o)
            if d:
                ctx.fail('shift', pmodel.render(expP), rx.serialize(), how=how, text=s, k=k, diff=d, has_intervals=has_iv)
        if st == 'ok':
            if k in (1, -1, n):
                perm_invariants(r, f'shift({k})')
            st4, back = lib.call(r.shift, -k)
            ctx.evals += 1
            if st4 != 'ok' or pmodel.diff(pmodel.expected(P), pmodel.observed(back)):
                ctx.fail('shift-inverse', s, back.serialize() if st4 == 'ok' else back, text=s, k=k,
                         has_intervals=has_iv)
            if k % n == 0 and pmodel.diff(pmodel.expected(P), pmodel.observed(r)):
                ctx.fail('shift-by-length', s, r.serialize(), text=s, k=k, has_intervals=has_iv)
    # ---- shuffle / sort
    for seed in range(8):
        nops += 1
        a = p.parse(s)
        st, r = lib.call(a.shuffle, seed)
        a2 = p.parse(s)
        st2, _ = lib.call(a2.shuffle, seed, inplace=True)
        st3, rs = lib.call(p.shuffle, s, seed)
        ctx.evals += 3
        if st != 'ok' or st2 != 'ok' or st3 != 'ok':
            ctx.fail('shuffle-raises', None, [r, _, rs], text=s, seed=seed)
            continue
        perm_invariants(r, f'shuffle({seed})')
        if pmodel.observed(a2) != pmodel.observed(r):
            ctx.fail('shuffle-inplace-differs', r.serialize(), a2.serialize(), text=s, seed=seed)
        if not has_iv and rs != r.serialize():
            ctx.fail('shuffle-function-differs', r.serialize(), rs, text=s, seed=seed)
    nops += 1
    a = p.parse(s)
    st, r = lib.call(a.sort_residues)
    a2 = p.parse(s)
    st2, _ = lib.call(a2.sort_residues, inplace=True)
    st3, rs = lib.call(p.sort, s)
    ctx.evals += 3
    if st != 'ok' or st2 != 'ok' or st3 != 'ok':
        ctx.fail('sort-raises', None, [r, _, rs], text=s)
    else:
        perm_invariants(r, 'sort')
        if r.sequence != ''.join(sorted(P['seq'])):
            ctx.fail('sort-order', ''.join(sorted(P['seq'])), r.sequence, text=s)
        if pmodel.observed(a2) != pmodel.observed(r):
            ctx.fail('sort-inplace-differs', r.serialize(), a2.serialize(), text=s)
        if not has_iv and rs != r.serialize():
            ctx.fail('sort-function-differs', r.serialize(), rs, text=s)
    # ---- slice
    slice_fields = ['sequence', 'internal', 'nterm', 'cterm', 'intervals']
    for i in range(0, n + 1):
        for j in range(i, n + 1):
            if cuts_inside(P, i, j):
                continue
            nops += 1
            expP = m_slice(P, i, j)
            a = p.parse(s)
            st, r = lib.call(a.slice, i, j)
            a2 = p.parse(s)
            st2, _ = lib.call(a2.slice, i, j, inplace=True)
            ctx.evals += 2
            if st == 'ok' and st2 == 'ok' and pmodel.observed(r) != pmodel.observed(a2):
                # inplace False and True give the same result, in every field (whole-peptide annotations included)
                ctx.fail('slice-inplace-differs', r.serialize(), a2.serialize(), text=s, span=[i, j])
            for how, stx, rx in (('method', st, r), ('method-inplace', st2, a2)):
                if stx != 'ok':
                    ctx.fail('slice-raises', pmodel.render(expP), rx if how == 'method' else _, how=how, text=s, span=[i, j])
                    continue
                e = pmodel.expected(expP)
                d = pmodel.diff({f: e[f] for f in slice_fields}, pmodel.observed(rx))
                if d:
                    ctx.fail('slice', pmodel.render(expP), rx.serialize(), how=how, text=s, span=[i, j], diff=d)
            if j > i:
                st3, rs = lib.call(p.span_to_sequence, s, (i, j, 0))
                ctx.evals += 1
                if st3 != 'ok':
                    ctx.fail('slice-raises', pmodel.render(expP), rs, how='function', text=s, span=[i, j])
                else:
                    stp, ra = lib.call(p.parse, rs)
                    if stp != 'ok':
                        ctx.fail('slice-reparse', pmodel.render(expP), rs, text=s, span=[i, j])
                    else:
                        e = pmodel.expected(expP)
                        d = pmodel.diff({f: e[f] for f in slice_fields}, pmodel.observed(ra))
                        if d:
                            ctx.fail('slice', pmodel.render(expP), rs, how='function', text=s, span=[i, j], diff=d)
            # composition: slice of a slice
            if st == 'ok' and j - i >= 1:
                m = j - i
                for k2 in range(0, m + 1):
                    for l2 in range(k2, m + 1):
                        if cuts_inside(expP, k2, l2) or cuts_inside(P, i + k2, i + l2):
                            continue
                        st4, rr = lib.call(r.slice, k2, l2)
                        ctx.evals += 1
                        e2 = pmodel.expected(m_slice(P, i + k2, i + l2))
                        if st4 != 'ok':
                            ctx.fail('slice-compose-raises', None, rr, text=s, outer=[i, j], inner=[k2, l2])
                            continue
                        d = pmodel.diff({f: e2[f] for f in slice_fields}, pmodel.observed(rr))
                        if d:
                            ctx.fail('slice-compose', pmodel.render(m_slice(P, i + k2, i + l2)), rr.serialize(), text=s,
                                     outer=[i, j], inner=[k2, l2], diff=d)
    # ---- split
    if not has_iv:
        nops += 1
        a = p.parse(s)
        st, pieces = lib.call(lambda: list(a.split()))
        st2, ps = lib.call(p.split, s)
        ctx.evals += 2
        if st != 'ok' or st2 != 'ok':
            ctx.fail('split-raises', None, [pieces, ps], text=s)
        else:
            if len(pieces) != n or len(ps) != n:
                ctx.fail('split-count', n, [len(pieces), len(ps)], text=s)
            else:
                for i, pc in enumerate(pieces):
                    e = pmodel.expected(m_slice(P, i, i + 1))
                    o = pmodel.observed(pc)
                    want = {'sequence': e['sequence'], 'internal': e['internal'], 'nterm': e['nterm'], 'cterm': e['cterm'],
                            'labile': pmodel.expected(P)['labile'] if i == 0 else None}
                    d = pmodel.diff(want, o)
                    if d:
                        ctx.fail('split-piece', want, pc.serialize(), text=s, index=i, diff=d)
                    if ps[i] != pc.serialize():
                        ctx.fail('split-function-differs', pc.serialize(), ps[i], text=s, index=i)
                if not has_global:
                    joined = ''.join(ps)
                    stj, ja = lib.call(p.parse, joined)
                    if stj != 'ok' or pmodel.diff(pmodel.expected(P), pmodel.observed(ja)):
                        ctx.fail('split-concatenation', s, joined, text=s)
    # ---- the string wrappers called on ONE shared annotation object, one after the other: each result must equal the
    # result for the string input (an in-place slip in a wrapper shows on the following call)
    shared = p.parse(s)
    wrappers = [('reverse', lambda x: p.reverse(x)), ('shift', lambda x: p.shift(x, 1)), ('sort', lambda x: p.sort(x)),
                ('shuffle', lambda x: p.shuffle(x, 3)), ('split', lambda x: p.split(x))]
    wrappers += [(f'span_to_sequence({i},{j})', (lambda x, i=i, j=j: p.span_to_sequence(x, (i, j, 0))))
                 for i in range(0, n) for j in range(i + 1, n + 1) if not cuts_inside(P, i, j)][:12]
    for name, fn in wrappers + wrappers[-3:]:
        if has_iv and name in ('shift', 'split'):
            continue
        st_a, ra = lib.call(fn, shared)
        st_b, rb = lib.call(fn, s)
        ctx.evals += 2
        nops += 1
        if st_a != st_b or (st_a == 'ok' and ra != rb):
            ctx.fail('wrapper-on-shared-annotation', rb, ra, op=name, text=s)
            break
    # ---- one parsed object that has answered queries (residue counts, mass, composition, text) is reordered / cut: the
    # result answers the same queries like a freshly parsed copy of its own text (nothing remembered from the source)
    def answers(x):
        return (lib.call(lambda: sorted(x.count_residues().items())), lib.call(lambda: round(p.mass(x), 6)),
                lib.call(lambda: len(x)), lib.call(lambda: x.count_modified_residues()))

    ops = [('reverse', lambda a: a.reverse()), ('sort', lambda a: a.sort_residues()), ('shuffle', lambda a: a.shuffle(seed=2))]
    if not has_iv:
        ops.append(('shift', lambda a: a.shift(1)))
    ops += [(f'slice({i},{j})', (lambda a, i=i, j=j: a.slice(i, j))) for i, j in ((0, n - 1), (1, n), (1, n - 1), (0, n))
            if 0 <= i < j <= n and not cuts_inside(P, i, j)]
    for name, op in ops:
        for inplace in (False, True):
            a = p.parse(s)
            answers(a)
            lib.call(a.serialize)
            lib.call(p.comp_mass, a)
            if inplace:
                opn = name.split('(')[0]
                kw = {'inplace': True}
                if opn == 'reverse':
                    st_r, _ = lib.call(lambda: a.reverse(inplace=True))
                elif opn == 'sort':
                    st_r, _ = lib.call(lambda: a.sort_residues(inplace=True))
                elif opn == 'shuffle':
                    st_r, _ = lib.call(lambda: a.shuffle(seed=2, inplace=True))
                elif opn == 'shift':
                    st_r, _ = lib.call(lambda: a.shift(1, inplace=True))
                else:
                    i, j = [int(x) for x in name[6:-1].split(',')]
                    st_r, _ = lib.call(lambda: a.slice(i, j, inplace=True))
                r = a
            else:
                st_r, r = lib.call(op, a)
            ctx.evals += 3
            nops += 1
            if st_r != 'ok':
                continue       # reported by the clauses above
            if not inplace:
                # the result is a new peptide: editing it (explicit editors) leaves the source as it was
                st_b, before = lib.call(a.serialize)
                st_k, keep = lib.call(r.serialize)
                lib.call(r.add_internal_mod, 0, 'Methyl')
                lib.call(r.add_nterm_mods, 'Formyl')
                if len(r) >= 2:
                    lib.call(lambda: r.slice(1, len(r), inplace=True))
                st_a, after = lib.call(a.serialize)
                if (st_b, before) != (st_a, after):
                    ctx.fail('result-shares-state-with-source', before, after, op=name, text=s,
                             note='the result of the operation was edited in place (add_internal_mod, add_nterm_mods, slice inplace)')
                    break
                st_r, r = lib.call(op, a)      # a fresh result for the clause below
                if st_r != 'ok':
                    continue
            st_t, text = lib.call(r.serialize)
            st_f, fresh = lib.call(p.parse, text) if st_t == 'ok' else ('err', None)
            if st_f != 'ok':
                continue
            got, want = answers(r), answers(fresh)
            if got != want:
                ctx.fail('result-after-queries', [str(w[1])[:200] for w in want], [str(g[1])[:200] for g in got], op=name,
                         inplace=inplace, text=s, result=text,
                         note='count_residues / mass / len / count_modified_residues were asked of the source object first')
                break
    ctx.sub_states = nops
    ctx.sub_nontrivial = nops
    ctx.outcome = s


def _d13_shift(case, f):
    """cyclic shift of a peptide with ambiguity intervals: interval bounds are shifted modulo n, a wrapping interval (or
    one ending at n) has no representation; only the interval part of the result is wrong."""
    if f['clause'] not in ('shift', 'shift-inverse', 'shift-by-length') or not f.get('has_intervals'):
        return False
    if f['clause'] == 'shift':
        return set((f.get('diff') or {}).keys()) <= {'intervals'}
    return True


CLASSIFIERS = {'D13-shift': _d13_shift}
