"""C09 — the parser is total; validation of modification names is deferred to mass/composition.

Space (b): every string of <= L tokens over a 28-token notation alphabet; every single-character mutation of every
valid string of the C01 level<=1 space; pumping (token repetition); deferred-validation corpus x slot x call."""
import itertools

from mc import lib, pmodel
from checks import c01

PROPERTY = 'C09'
CASE_TIMEOUT_S = 180   # bundles hold up to 22k strings (~1 s); a single hanging string trips the watchdog
RULE = ('language space: all strings of <=L tokens over a 28-token alphabet (BFS by length, bundled by 2-token prefix); '
        'mutation space: delete / insert any token / swap neighbours / duplicate at every character position of every '
        'valid string of the C01 level<=1 space; pumping: every <=3-token string with each token repeated 1..8 times; '
        'deferred validation: 18 slots (incl. global rules on absent residues, termini, with an isotope label) x 43 unresolvable values x 6 calls; non-trivial = contains a bracket or separator '
        'token (language), any mutant (mutation)')
ASSUMPTIONS = ['"an error" = any ValueError subclass (all peptacular errors derive from ValueError)',
               'is_sequence_valid must never raise, must be False for rejected text and True for text that parses to a single-chain annotation',
               'unresolvable corpus excludes values for which the library documents a mass of 0 (bare #tag, empty Formula:)']

TOKENS = ['P', 'K', '[', ']', '(', ')', '{', '}', '<', '>', '?', '-', '+', '/', '^', '@', '#', '|', ':', ',', '.',
          '1', '2', 'Oxidation', '\\', ' ', '13C', '0']
NONTRIV = set('[](){}<>?-+/^@#|:,.\\')

CORPUS_MUST_RAISE = ['Foo', 'U:99999', 'UNIMOD:xyz', 'M:notaname', 'X:99999', 'R:AA0037', 'G:G00001', 'Glycan:Foo',
                     'Obs:abc', 'INFO:x', 'a|b', 'MOD:99999', 'Formula:Zz2', 'INFO:a|Foo',
                     # a prefix with nothing (or only a sign) behind it
                     'U:', 'UNIMOD:', 'M:', 'PSI-MOD:', 'X:', 'XLMOD:', 'R:', 'G:', 'GNO:', 'Obs:', 'U:+', 'Obs:-', 'U: 35',
                     # a formula with unreadable characters before or between well-formed terms
                     'Formula:2C', 'Formula:xC2', 'Formula:c2H4O', 'Formula:C2 H4', 'Formula:C2+H', 'Formula:C2H4ss',
                     'Formula:xH0', 'Glycan:xHex', 'Glycan:Hex Hex',
                     # a second colon field
                     'Formula:C2:H2', 'Glycan:Hex:2', 'Glycan:Hex:Foo', 'Obs:1:5', 'Obs:+1:x', 'U:+1:5', 'U:35:x',
                     # an accession that exists in ANOTHER vocabulary (asked after that vocabulary resolved it)
                     'R:1', 'G:1', 'R:21', 'G:35', 'X:35', 'R:Acetyl', 'G:Phospho',
                     # an isotope bracket holding more than one element (was read up to the first count: D28)
                     'Formula:[13C2H3]', 'Formula:[13C2 ]', 'Formula:C2[13C1H]', 'Formula:[2H2O]',
                     # an empty value / an empty alternative beside an unresolvable one
                     '', 'Foo|', '|Foo', '|', 'Foo||Bar']
# macro tokens: whole notation elements, so that short sequences reach well-formed groups followed by one odd element
MACRO = ['PEK', 'K', '[1]', '^2', '/2', '[+Na+]', '-', '?', '(', ')', '<13C>', '<[1]@K>', '{1}', '+', '//', '[Oxidation]',
         '^', '/', '\\\\', '[']
# comp()/comp_mass() keep an unknown element symbol in the composition they return (it is not counted as zero; asking
# for the mass of that composition raises)
COMP_KEEPS_UNKNOWN_SYMBOL = {'Formula:Zz2', 'INFO:a|Formula:Zz2'}
SLOTS = ['labile', 'static', 'unknown', 'nterm', 'r0', 'iv', 'cterm', 'rlast',
         'static:C', 'static:N-Term', 'static:C-Term', 'static+13C', 'static:C+13C',
         # the unresolvable value next to a resolvable global rule on the same place
         'cterm+rule', 'nterm+rule', 'rlast+rule', 'static-first-of-two', 'static-second-of-two',
         # the unresolvable value on a range that follows a range without modifications / a resolvable range
         'iv-after-plain-iv', 'iv-after-resolvable-iv']   # static:C = rule on a residue the peptide lacks


def describe(tier):
    return {'max_tokens': 5 if tier == 'thorough' else 4, 'alphabet': TOKENS,
            'mutation_bases': ['K', 'PEK'] if tier == 'thorough' else ['PEK'], 'pump_max_repeat': 8, 'pump_extreme_repeat': 40,
            'deferred_corpus': CORPUS_MUST_RAISE, 'slots': SLOTS}


def shards(tier):
    L = describe(tier)['max_tokens']
    out = [{'kind': 'lang', 'pre': [], 'maxlen': 2}]
    plen = 3 if tier == 'thorough' else 2
    for pre in itertools.product(range(len(TOKENS)), repeat=plen):
        out.append({'kind': 'lang', 'pre': list(pre), 'maxlen': L})
    for seq in describe(tier)['mutation_bases']:
        for sh in c01.shards('quick'):
            if sh.get('kind') == 'dev' and sh['seq'] == seq and sh['k'] <= 1:
                out.append({'kind': 'mut', 'c01': sh})
    for a in range(len(TOKENS)):
        out.append({'kind': 'pump', 'first': a})
    out.append({'kind': 'deferred'})
    out += [{'kind': 'macro', 'first': i} for i in range(len(MACRO))]
    out += [{'kind': 'novalue', 'db': 'psimod'}, {'kind': 'novalue', 'db': 'xlmod'}]
    return out


def gen(shard, tier):
    if shard['kind'] == 'lang':
        pre = shard['pre']
        if not pre:
            # all strings of length 0..2 (one bundle) -- longer ones come from the prefix shards
            yield {'kind': 'bundle', 'pre': [], 'lo': 0, 'hi': 2}, 0, False
        else:
            yield {'kind': 'bundle', 'pre': pre, 'lo': len(pre), 'hi': shard['maxlen']}, len(pre), True
    elif shard['kind'] == 'mut':
        sh = shard['c01']
        n = len(sh['seq'])
        for item in c01.gen(sh, 'quick'):
            yield {'kind': 'mutbundle', 'c01case': item[0]}, item[1] + 1, True
    elif shard['kind'] == 'pump':
        a = shard['first']
        for m in range(1, 4):
            for rest in itertools.product(range(len(TOKENS)), repeat=m - 1):
                yield {'kind': 'pumpbundle', 'toks': [a] + list(rest)}, m, True
    elif shard['kind'] == 'macro':
        L = 5 if tier == 'thorough' else 4
        yield {'kind': 'macrobundle', 'first': shard['first'], 'hi': L}, 1, True
    elif shard['kind'] == 'novalue':
        from mc import obo
        ents = obo.psimod() if shard['db'] == 'psimod' else obo.xlmod()
        pf = 'MOD:' if shard['db'] == 'psimod' else 'XLMOD:'
        for e in ents:
            if e['obsolete'] or e['mono'] is not None or e.get('formula') not in (None, 'none'):
                continue
            yield {'kind': 'novalue', 'val': pf + e['acc'], 'name': e['name']}, 1, True
    else:
        for slot in SLOTS:
            for val in CORPUS_MUST_RAISE:
                for mult in (1, 2):
                    yield {'kind': 'deferred', 'slot': slot, 'val': val, 'mult': mult, '_timeout': 10}, 1, True
                # next to a resolvable modification in the same slot (before and after it)
                yield {'kind': 'deferred', 'slot': slot, 'val': val, 'mult': 1, 'with': 'after', '_timeout': 10}, 2, True
                yield {'kind': 'deferred', 'slot': slot, 'val': val, 'mult': 1, 'with': 'before', '_timeout': 10}, 2, True
        for val in ('Formula:C]H', 'Formula:C2]', 'Glycan:Hex]2', 'Formula:]'):   # only writable inside {...}
            yield {'kind': 'deferred', 'slot': 'labile', 'val': val, 'mult': 1, '_timeout': 5}, 1, True


def _one(p, ctx, s):
    """The totality clauses for one string. Returns outcome tag."""
    st, a = lib.call(p.parse, s)
    ctx.evals += 1
    sub = {'kind': 'str', 's': s}
    if st == 'err':
        if not isinstance(a, ValueError):
            ctx.fail('parse-foreign-exception', 'annotation or ValueError', a, text=s, subcase=sub)
        tag = 'E'
        single = False
    else:
        tag = 'A'
        single = not hasattr(a, 'annotations')
        for ip in (False, True):
            st2, s1 = lib.call(p.serialize, a, ip)
            ctx.evals += 1
            if st2 != 'ok' or not isinstance(s1, str):
                ctx.fail('accepted-but-not-serializable', 'string', s1, text=s, include_plus=ip, subcase=sub)
    st3, v = lib.call(p.is_sequence_valid, s)
    ctx.evals += 1
    if st3 != 'ok':
        ctx.fail('is_sequence_valid-raises', 'bool', v, text=s, subcase=sub)
    elif (st == 'err' and v) or (single and not v):
        # rejected text must be invalid, a single-chain annotation must be valid; multi-chain text is not prescribed
        ctx.fail('is_sequence_valid-disagrees', single, v, text=s, subcase=sub)
    return tag


def check(case, ctx):
    p = lib.pt()
    kind = case['kind']
    if kind == 'str':
        ctx.outcome = _one(p, ctx, case['s'])
    elif kind == 'bundle':
        pre = [TOKENS[i] for i in case['pre']]
        acc = 0
        n = 0
        nt = 0
        levels = {}
        for ln in range(case['lo'], case['hi'] + 1):
            for rest in itertools.product(TOKENS, repeat=ln - len(pre)):
                s = ''.join(pre) + ''.join(rest)
                tag = _one(p, ctx, s)
                acc += tag == 'A'
                n += 1
                nt += bool(NONTRIV & set(s))
                levels[ln] = levels.get(ln, 0) + 1
        ctx.sub_states = n
        ctx.sub_nontrivial = nt
        ctx.sub_levels = levels
        ctx.outcome = [case['pre'], acc]
    elif kind == 'mutbundle':
        c = case['c01case']
        P = c01.build(c['seq'], c['slots'])
        s0 = pmodel.render(P, False)
        n = 0
        acc = 0
        seen = set()
        for i in range(len(s0) + 1):
            muts = [s0[:i] + t + s0[i:] for t in TOKENS + MACRO[2:]]
            if i < len(s0):
                muts.append(s0[:i] + s0[i + 1:])
                muts.append(s0[:i] + s0[i] + s0[i:])
            if i + 1 < len(s0):
                muts.append(s0[:i] + s0[i + 1] + s0[i] + s0[i + 2:])
            for m in muts:
                if m in seen:
                    continue
                seen.add(m)
                acc += _one(p, ctx, m) == 'A'
                n += 1
        ctx.sub_states = n
        ctx.sub_nontrivial = n
        ctx.outcome = [s0, acc]
    elif kind == 'macrobundle':
        n = 0
        acc = 0
        first = MACRO[case['first']]
        for ln in range(1, case['hi'] + 1):
            for rest in itertools.product(MACRO, repeat=ln - 1):
                s = first + ''.join(rest)
                acc += _one(p, ctx, s) == 'A'
                n += 1
        ctx.sub_states = n
        ctx.sub_nontrivial = n
        ctx.outcome = [first, acc]
    elif kind == 'novalue':
        # vocabulary entries whose table row has neither a mass nor a formula: unresolvable, must not count as zero
        val = case['val']
        for s in (f'PEK[{val}]', f'[{val}]-PEK', f'<[{val}]@K>PEK'):
            plain = p.mass('PEK')
            st, m = lib.call(p.mass, s)
            ctx.evals += 1
            if st == 'ok':
                ctx.fail('deferred-mass-silent', 'ValueError (entry has no mass and no formula)', m, text=s,
                         unmodified_mass=plain, entry=case['name'])
            elif not isinstance(m, ValueError):
                ctx.fail('deferred-mass-foreign-exception', 'ValueError', m, text=s)
            st, c = lib.call(p.comp, s)
            ctx.evals += 1
            if st == 'ok':
                ctx.fail('deferred-comp-silent', 'ValueError (entry has no mass and no formula)', c, text=s,
                         entry=case['name'])
            elif not isinstance(c, ValueError):
                ctx.fail('deferred-comp-foreign-exception', 'ValueError', c, text=s)
        ctx.outcome = [val]
    elif kind == 'pumpbundle':
        toks = [TOKENS[i] for i in case['toks']]
        n = 0
        acc = 0
        for reps in itertools.product(range(1, 9), repeat=len(toks)):
            if all(r == 1 for r in reps) or (len(toks) == 3 and not any(r in (1, 8) for r in reps)):
                continue  # unrepeated strings belong to the language space; triples: at least one extreme count
            s = ''.join(t * r for t, r in zip(toks, reps))
            acc += _one(p, ctx, s) == 'A'
            n += 1
        # the upper end of the quantifier: 40 repetitions of a token (strings of up to 120 tokens)
        for reps in itertools.product((1, 40), repeat=len(toks)):
            if all(r == 1 for r in reps):
                continue
            s = ''.join(t * r for t, r in zip(toks, reps))
            acc += _one(p, ctx, s) == 'A'
            n += 1
        ctx.sub_states = n
        ctx.sub_nontrivial = n
        ctx.outcome = [case['toks'], acc]
    else:
        slot, val, mult = case['slot'], case['val'], case['mult']
        seq = 'PEK'
        mods = [[val, mult]]
        if case.get('with') == 'after':
            mods = [['Acetyl', 1], [val, mult]]
        elif case.get('with') == 'before':
            mods = [[val, mult], ['Acetyl', 1]]
        slots = {slot: mods}
        if slot in ('cterm+rule', 'nterm+rule', 'rlast+rule'):
            tgt = {'cterm+rule': 'C-Term', 'nterm+rule': 'N-Term', 'rlast+rule': 'K'}[slot]
            slots = {slot.split('+')[0]: mods, 'static': [{'mods': [['Acetyl', 1]], 'targets': [tgt]}]}
        elif slot in ('static-first-of-two', 'static-second-of-two'):
            mine = {'mods': [[m[0], 1] for m in mods], 'targets': ['K']}
            other = {'mods': [['Acetyl', 1]], 'targets': ['K']}
            slots = {'static': [mine, other] if slot == 'static-first-of-two' else [other, mine]}
        elif slot.startswith('static'):
            tgt = slot.split('+')[0].partition(':')[2] or 'K'
            slots = {'static': [{'mods': [[m[0], 1] for m in mods], 'targets': [tgt]}]}
            if slot.endswith('+13C'):
                slots['isotope'] = ['13C']
        elif slot == 'iv':
            slots = {'iv': [[0, 2, False, mods]]}
        elif slot == 'iv-after-plain-iv':
            slots = {'iv': [[0, 1, True, None], [1, 3, False, mods]]}
        elif slot == 'iv-after-resolvable-iv':
            slots = {'iv': [[0, 1, False, [['Acetyl', 1]]], [2, 3, False, mods]]}
        P = c01.build(seq, slots)
        s = pmodel.render(P, False)
        # history: the bundled vocabularies have resolved these accessions / names before the unresolvable value is asked
        for primer in ('U:1', 'U:21', 'U:35', 'M:00719', 'U:Acetyl', 'U:Phospho', 'X:02001'):
            lib.call(p.mod_mass, primer)
        lib.call(p.mass, 'PEK[U:1][UNIMOD:35]')
        plain = p.mass(seq)
        absent = slot.startswith('static:C') and not slot.startswith('static:C-Term')
        st, a = lib.call(p.parse, s)
        ctx.evals += 1
        if st != 'ok':
            ctx.fail('deferred-parse-rejects', 'annotation', a, text=s)
            return
        st, s1 = lib.call(p.serialize, a)
        if st != 'ok':
            ctx.fail('deferred-serialize', 'string', s1, text=s)
        for mono in (True, False):
            st, m = lib.call(p.mass, s, monoisotopic=mono)
            ctx.evals += 1
            if st == 'ok' and absent:
                # the rule applies to no residue: a value is acceptable, but then it is the mass without the rule
                want = p.mass(('<13C>' if slot.endswith('+13C') else '') + seq, monoisotopic=mono)
                if not lib.close(m, want, 1e-6):
                    ctx.fail('deferred-mass-absent-target', want, m, text=s, monoisotopic=mono)
            elif st == 'ok':
                ctx.fail('deferred-mass-silent', 'ValueError', m, text=s, monoisotopic=mono,
                         unmodified_mass=plain)
            elif not isinstance(m, ValueError):
                ctx.fail('deferred-mass-foreign-exception', 'ValueError', m, text=s)
        for name, fn in (('comp', lambda: p.comp(s)), ('comp_estimate', lambda: p.comp(s, estimate_delta=True)),
                         ('mz', lambda: p.mz(s, charge=2)), ('comp_mass', lambda: p.comp_mass(s)),
                         ('fragment', lambda: p.fragment(s, 'b', 1)),
                         ('mass-ion-b', lambda: p.mass(s, ion_type='b', charge=1)),
                         ('mass-ion-y', lambda: p.mass(s, ion_type='y', charge=2, monoisotopic=False)),
                         ('condense', lambda: p.condense_to_mass_mods(s))):
            st, v = lib.call(fn)
            ctx.evals += 1
            if st == 'err' and not isinstance(v, ValueError):
                ctx.fail('deferred-foreign-exception', 'value or ValueError', v, text=s, call=name)
            elif st == 'ok' and not absent and val not in COMP_KEEPS_UNKNOWN_SYMBOL and \
                    not (name in ('fragment', 'mass-ion-b', 'mass-ion-y') and slot == 'labile'):   # fragment ions do not carry labile modifications
                # asking for the composition (or anything derived from mass / composition) raises as well
                ctx.fail('deferred-silent', 'ValueError', str(v)[:120], text=s, call=name)
        if not slot.startswith('static'):
            for name, fn in (('mod_mass', lambda: p.mod_mass(val)), ('mod_comp', lambda: p.mod_comp(val))):
                st, v = lib.call(fn)
                ctx.evals += 1
                if st == 'err' and not isinstance(v, ValueError):
                    ctx.fail('deferred-foreign-exception', 'value or ValueError', v, text=val, call=name)
                if name == 'mod_mass' and st == 'ok':
                    ctx.fail('deferred-mod_mass-silent', 'ValueError', v, text=val)
        ctx.outcome = [s]


CLASSIFIERS = {}
