"""C05 — fragment ion series obey the chemistry of peptide backbone cleavage (independent offsets from the frozen
NIST table).  Observed through pt.fragment and pt.mass(ion_type=...)."""
import itertools

from mc import lib, pmodel, refmass, refdata, catalogue

CASE_TIMEOUT_S = 300      # wall-clock horizon per state (states of this check bundle many sub-states; generous for loaded machines)
PROPERTY = 'C05'
RULE = ('full product: every residue string of length 2..L over the 22 unambiguous-mass letters; modified layer: strings of '
        'length 2..4 over {G,K,M,W} with <=2 numeric/formula modifications on residues/termini, written in place or as a '
        'global rule on N-Term/C-Term/K/G (deviation bounded); long layer: all cyclic windows of length 5..15 of fixed words over '
        'the 22 letters, plain and modified; pt.fragment and the Fragmenter class; all 6 '
        'terminal series, 9 internal series, immonium; charge 1..4; monoisotopic and average; a state = one peptide (all '
        'ions, charges, modes inside); non-trivial = every state (length >= 2)')
ASSUMPTIONS = ['ion chemistry as in the statement: b=R+p, y=R+H2O+p, a=b-CO, c=b+NH3, x=y+CO-H2, z=y-NH3, immonium=R-CO+p, '
               'internal XY = R+p+Coff(X)+Noff(Y); each extra charge adds one proton',
               'terminal modifications belong to the prefix (N-term) / suffix (C-term) ions; immonium/internal clauses are '
               'evaluated with residue modifications only', 'tolerance 1e-5 Da (mono), 2e-3 Da (average)']

LETTERS = ''.join(sorted(set(refdata.AA) - {'X', 'J'}))   # 22 letters
MOD_TEXTS = ['15.995', '-18.0106', 'Formula:C2H2O', 'Formula:[13C2][12C-2]H2N', '100']
LONG_WORDS = [LETTERS, LETTERS[::3] + LETTERS[1::3] + LETTERS[2::3], LETTERS[::-1][::2] + LETTERS[::-1][1::2]]
TERMINAL = ['a', 'b', 'c', 'x', 'y', 'z']
INTERNAL = ['ax', 'ay', 'az', 'bx', 'by', 'bz', 'cx', 'cy', 'cz']


def describe(tier):
    return {'max_len': 4 if tier == 'thorough' else 3, 'letters': LETTERS, 'mod_texts': MOD_TEXTS,
            'modified_alphabet': 'GKMW', 'modified_max_len': 4 if tier == 'thorough' else 3, 'charges': [1, 2, 3, 4],
            'long_layer': 'every cyclic window of length 5..15 of %d fixed word(s) over the 22 letters x {plain, two residue '
                          'modifications, both termini + first residue modified}' % (len(LONG_WORDS) if tier == 'thorough' else 1)}


def shards(tier):
    d = describe(tier)
    out = []
    for n in range(2, d['max_len'] + 1):
        for pre in itertools.product(LETTERS, repeat=min(n, 2)):
            out.append({'kind': 'plain', 'n': n, 'pre': ''.join(pre)})
    for n in range(2, d['modified_max_len'] + 1):
        for t in itertools.product('GKMW', repeat=n):
            out.append({'kind': 'mod', 'seq': ''.join(t)})
    for w in range(len(LONG_WORDS) if tier == 'thorough' else 1):
        for n in range(5, 16):
            out.append({'kind': 'long', 'word': w, 'n': n})
    return out


def gen(shard, tier):
    if shard['kind'] == 'long':
        # the upper part of the quantifier (length 5..15): every cyclic window of a fixed word over the 22 letters, plain,
        # with two residue modifications (middle, last), and with both termini + first residue modified
        word, n = LONG_WORDS[shard['word']], shard['n']
        for st in range(len(word)):
            seq = (word + word)[st:st + n]
            yield {'seq': seq, 'mods': []}, 0, True
            yield {'seq': seq, 'mods': [[n // 2, MOD_TEXTS[0]], [n - 1, MOD_TEXTS[2]]]}, 2, True
            yield {'seq': seq, 'mods': [['n', MOD_TEXTS[2]], ['c', MOD_TEXTS[1]], [0, MOD_TEXTS[4]]]}, 3, True
        return
    if shard['kind'] == 'plain':
        n = shard['n']
        for t in itertools.product(LETTERS, repeat=n - len(shard['pre'])):
            yield {'seq': shard['pre'] + ''.join(t), 'mods': []}, 0, True
    else:
        seq = shard['seq']
        n = len(seq)
        slots = ['n', 'c'] + list(range(n)) + ['sn', 'sc', 'sK', 'sG', 'l']   # s* = written as a global rule; l = labile
        for k in (1, 2):
            for ss in itertools.combinations(slots, k):
                texts = MOD_TEXTS if k == 1 else MOD_TEXTS[:3]
                for tt in itertools.product(texts, repeat=k):
                    yield {'seq': seq, 'mods': [[s, t] for s, t in zip(ss, tt)]}, k, True


def build(case):
    P = {'seq': case['seq']}
    res = []
    for slot, text in case['mods']:
        if slot == 'n':
            P['nterm'] = [[text, 1]]
        elif slot == 'c':
            P['cterm'] = [[text, 1]]
        elif slot == 'l':
            P['labile'] = [[text, 1]]       # lost on fragmentation: no fragment ion carries it
        elif slot in ('sn', 'sc', 'sK', 'sG'):
            tgt = {'sn': 'N-Term', 'sc': 'C-Term', 'sK': 'K', 'sG': 'G'}[slot]
            P.setdefault('static', []).append({'mods': [[text, 1]], 'targets': [tgt]})
        else:
            res.append([int(slot), [[text, 1]]])
    if res:
        P['res'] = res
    return P


def span_mass(P, a, b, mono):
    """neutral sum of residues a..b-1 with their own modifications (+ terminal mods if the span touches the terminus)"""
    seq = P['seq']
    m = refmass.residue_mass(seq[a:b], mono)
    for i, ms in P.get('res', []):
        if a <= i < b:
            m += refmass.mods_mass(ms, mono)
    return m


def check(case, ctx):
    p = lib.pt()
    P0 = build(case)
    s = pmodel.render(P0)
    P = pmodel.expand_static(P0)       # own expansion of global rules; every clause below reads the explicit form
    seq = P['seq']
    n = len(seq)
    nterm = refmass.mods_mass(P.get('nterm') or [], True), refmass.mods_mass(P.get('nterm') or [], False)
    cterm = refmass.mods_mass(P.get('cterm') or [], True), refmass.mods_mass(P.get('cterm') or [], False)
    has_term = bool(P.get('nterm') or P.get('cterm'))
    nions = 0
    ALL = TERMINAL + INTERNAL + ['i']
    for mono in (True, False):
        tol = 1e-5 if mono else 2e-3
        mi = 0 if mono else 1
        for via in ('fragment', 'Fragmenter'):
            if via == 'fragment':
                st, frs = lib.call(p.fragment, s, ALL, [1, 2, 3, 4], mono)
            else:
                def two_calls():
                    F = p.Fragmenter(s, mono)
                    return F.fragment(ALL, [1, 2, 3, 4]), F.fragment(ALL, [1, 2, 3, 4])
                st, frs = lib.call(two_calls)
                if st == 'ok':
                    # the same request on the same Fragmenter object a second time gives the same ions
                    frs, again = frs
                    k1 = [(f.ion_type, f.start, f.end, f.charge, f.mass, f.mz) for f in frs]
                    k2 = [(f.ion_type, f.start, f.end, f.charge, f.mass, f.mz) for f in again]
                    if k1 != k2:
                        bad = next((x, y) for x, y in zip(k1 + [None], k2 + [None]) if x != y)
                        ctx.fail('fragmenter-second-call', list(bad[0]) if bad[0] else None, list(bad[1]) if bad[1] else None,
                                 text=s, monoisotopic=mono, note='second identical fragment() call on one Fragmenter object')
                    ctx.evals += 1
            ctx.evals += 1
            if st != 'ok':
                ctx.fail('fragment-raises', 'list', frs, call=[via, s, 'all', [1, 2, 3, 4], mono])
                continue
            total = span_mass(P, 0, n, mono) + nterm[mi] + cterm[mi] + refdata.comp_mass(refmass.H2O, mono)
            byk = {}
            for f in frs:
                byk[(f.ion_type, f.start, f.end, f.charge)] = f
            for f in frs:
                t, a, b, z = f.ion_type, f.start, f.end, f.charge
                if t in ('a', 'b', 'c'):
                    if a != 0:
                        ctx.fail('series-span', 'prefix', [a, b], ion=t, text=s, via=via)
                        continue
                    base = span_mass(P, a, b, mono) + nterm[mi] + (cterm[mi] if b == n else 0)
                elif t in ('x', 'y', 'z'):
                    if b != n:
                        ctx.fail('series-span', 'suffix', [a, b], ion=t, text=s, via=via)
                        continue
                    base = span_mass(P, a, b, mono) + cterm[mi] + (nterm[mi] if a == 0 else 0)
                else:
                    if has_term:
                        continue
                    base = span_mass(P, a, b, mono)
                exp = base + refdata.comp_mass(refmass.ION_OFFSET[t], mono) + z * refdata.PROTON
                nions += 1
                if not lib.close(f.mass, exp, tol):
                    ctx.fail('ion-mass', exp, f.mass, ion=t, span=[a, b], charge=z, monoisotopic=mono, text=s,
                             deviation=f.mass - exp, via=via)
                elif not lib.close(f.mz, exp / z, tol):
                    ctx.fail('ion-mz', exp / z, f.mz, ion=t, span=[a, b], charge=z, monoisotopic=mono, text=s, via=via)
            # fixed chemical offsets between the series, also in average mode at 1e-5 (differences of two library values
            # of the same span and charge against the small composition CO, NH3, H2 from the frozen table)
            for (t, a, b, z), f in byk.items():
                anchor = 'b' if t in ('a', 'c') else 'y' if t in ('x', 'z') else None
                g = byk.get((anchor, a, b, z)) if anchor else None
                if g is None:
                    continue
                want = refdata.comp_mass(refmass.ION_OFFSET[t], mono) - refdata.comp_mass(refmass.ION_OFFSET[anchor], mono)
                if not lib.close(f.mass - g.mass, want, 1e-5):
                    ctx.fail('series-offset', want, f.mass - g.mass, ion=t, anchor=anchor, span=[a, b], charge=z,
                             monoisotopic=mono, text=s, via=via)
            # every further charge adds exactly one proton, in both mass modes (difference of two library values)
            for (t, a, b, z), f in byk.items():
                if z > 1:
                    g = byk.get((t, a, b, 1))
                    if g is not None and not lib.close(f.mass - g.mass, (z - 1) * refdata.PROTON, 1e-6):
                        ctx.fail('charge-step', (z - 1) * refdata.PROTON, f.mass - g.mass, ion=t, span=[a, b], charge=z,
                                 monoisotopic=mono, text=s, via=via)
            # complementary pairs: b_i + y_(n-i) = M + 2 protons
            for i in range(1, n):
                fb = byk.get(('b', 0, i, 1))
                fy = byk.get(('y', i, n, 1))
                if fb is None or fy is None:
                    ctx.fail('complementary-missing', 'b and y ion', [fb is not None, fy is not None], cleavage=i, text=s,
                             via=via)
                    continue
                if not lib.close(fb.mass + fy.mass, total + 2 * refdata.PROTON, 2 * tol):
                    ctx.fail('complementary-sum', total + 2 * refdata.PROTON, fb.mass + fy.mass, cleavage=i, text=s,
                             monoisotopic=mono, via=via)
        # the same series through the mass calculator on the fragment's own sequence
        if mono and not P0.get('labile'):
            for t in ALL:
                if has_term and t not in TERMINAL:
                    continue       # internal / immonium clauses: residue modifications only (see ASSUMPTIONS)
                for z in (1, 3):
                    # the full-length ion contains both termini
                    exp = span_mass(P, 0, n, mono) + nterm[mi] + cterm[mi] + \
                        refdata.comp_mass(refmass.ION_OFFSET[t], mono) + z * refdata.PROTON
                    st, got = lib.call(p.mass, s, charge=z, ion_type=t, monoisotopic=mono)
                    ctx.evals += 1
                    nions += 1
                    if st != 'ok' or not lib.close(got, exp, tol):
                        ctx.fail('mass-ion-type', exp, got, ion=t, charge=z, monoisotopic=mono, text=s,
                                 deviation=(got - exp) if st == 'ok' else None)
    # one parsed object that was asked for its masses first (queries), then fragmented: the ions are those of the text
    if case['mods']:
        st0, obj = lib.call(p.parse, s)
        if st0 == 'ok':
            for q in (lambda: p.mass(obj), lambda: p.mass(obj, charge=2, ion_type='b'), lambda: p.mass(obj, monoisotopic=False),
                      lambda: p.comp_mass(obj), lambda: p.mz(obj, charge=1)):
                lib.call(q)
            a = lib.call(p.fragment, obj, ['b', 'y', 'c', 'z', 'i'], [1, 2])
            b = lib.call(p.fragment, s, ['b', 'y', 'c', 'z', 'i'], [1, 2])
            ctx.evals += 7
            ka = [(f.ion_type, f.start, f.end, f.charge, f.mass) for f in a[1]] if a[0] == 'ok' else str(a[1])[:200]
            kb = [(f.ion_type, f.start, f.end, f.charge, f.mass) for f in b[1]] if b[0] == 'ok' else str(b[1])[:200]
            if ka != kb:
                bad = next(((x, y) for x, y in zip(ka, kb) if x != y), (None, None)) if isinstance(ka, list) and isinstance(kb, list) else (ka, kb)
                ctx.fail('fragments-after-queries', bad[1], bad[0], text=s,
                         note='mass / comp_mass / mz were asked of the same annotation object before fragment()')
    ctx.outcome = [s, nions]


def _d9(case, f):
    """internal series ax, az, bx, bz are one hydrogen heavier than R + p + Coff + Noff (README: 'may not be accurate')"""
    if f['clause'] not in ('ion-mass', 'mass-ion-type') or f.get('ion') not in ('ax', 'az', 'bx', 'bz'):
        return False
    if f.get('deviation') is None:
        return False
    mono = f.get('monoisotopic', True)
    h = refdata.MONO['H'] if mono else refdata.AVG['H']
    return abs(f['deviation'] - h) <= (1e-5 if mono else 2e-3)


CLASSIFIERS = {'D9': _d9}
