"""C16 — subsequence search and coverage find every occurrence.

Space (b): every target over {A,K} up to length L, every query of length 1..4; modified variants with traceable
tags on residues / termini of target and query.  Oracle: brute-force offset scan on plain tuples."""
import itertools

from mc import lib

CASE_TIMEOUT_S = 600      # wall-clock horizon per state (states of this check bundle many sub-states; generous for loaded machines)
PROPERTY = 'C16'
RULE = ('full product: every target string over {A,K} of length 0..L x every query of length 1..4 x ignore_mods; '
        'modified layer: every target of length<=Lm with a tagged modification at every residue/terminus x every '
        'query with/without tags (one or two modifications per site, either order); interval layer: every target with one '
        'modified interval x every query with/without an interval; global layer: 9 whole-peptide annotations on target x '
        'query; coverage/percent over every ordered list of <=2 queries '
        '(strings, annotation objects, mixed); a state is distinct by '
        'its (kind,target,query-set) tuple and non-trivial when the target is non-empty and at least one query occurs')
ASSUMPTIONS = ['residue alphabet {A,K} forces overlapping occurrences; tags are numeric mass shifts 1,2',
               'a stretch contains a terminus only when it starts at 0 / ends at n (terminal mods are compared then)',
               'order-insensitive containment: a peptide is the multiset of its residues, each with its own modifications and, '
               'for the first / last residue, the N- / C-terminal modifications']

ALPHA = 'AK'
TWO_TAG_N = {'quick': 2, 'thorough': 3}   # target lengths whose sites may carry two tags (written in either order)
GLOBALS = ['', '/2', '/2[+2Na+]', '/3', '/2[+Na+,+H+]', '<13C>', '<[1]@K>', '{Glycan:Hex}', '[Phospho]?']


def describe(tier):
    return {'L': 9 if tier == 'thorough' else 8, 'Lm': 5 if tier == 'thorough' else 4, 'query_len': [1, 4],
            'pair_query_len': 4 if tier == 'thorough' else 3}


def _strings(lo, hi):
    for n in range(lo, hi + 1):
        for t in itertools.product(ALPHA, repeat=n):
            yield ''.join(t)


def shards(tier):
    d = describe(tier)
    out = []
    for n in range(0, d['L'] + 1):
        k = max(0, min(n, n - 3))  # shard by prefix so that shards hold <= 8 targets
        out += [{'kind': 'plain', 'n': n, 'pre': ''.join(pre)} for pre in itertools.product(ALPHA, repeat=k)]
    for n in range(1, d['Lm'] + 1):
        out += [{'kind': 'mod', 'n': n, 'pre': ''.join(t)} for t in itertools.product(ALPHA, repeat=n)]   # one target per shard
        if n >= 2:
            out += [{'kind': 'iv', 'n': n, 'pre': ''.join(t)} for t in itertools.product(ALPHA, repeat=n)]
        out += [{'kind': 'glob', 'n': n, 'pre': a} for a in ALPHA]
        if n == 1:
            out += [{'kind': 'multi', 'n': len(t_), 'pre': '', 't': t_} for t_ in MULTI_TARGETS]
        out += [{'kind': 'unordered', 'n': n, 'pre': ''.join(t), 'tm0': m0}
                for t in itertools.product(ALPHA, repeat=n) for m0 in ((0, 1, 2, 12, 21) if n <= TWO_TAG_N[tier] else (0, 1, 2))]
    return out


# targets with SEVERAL tagged residues (offsets up to 11): every K tagged, in three tag layouts
MULTI_TARGETS = ['KAK', 'KAKKA', 'AKAAAAAAKA', 'KAAAAAAAAAKK', 'AKAKAKAKAKAK']


def gen(shard, tier):
    if shard['kind'] == 'multi':
        t = shard['t']
        ks = [i for i, c in enumerate(t) if c == 'K']
        for layout in ('all1', 'alternate', 'first1-rest2'):
            yield {'kind': 'multi', 't': t, 'layout': layout}, len(ks), True
        return
    d = describe(tier)
    n = shard['n']
    pre = shard['pre']
    if shard['kind'] == 'plain':
        for t in _strings(n, n):
            if not t.startswith(pre):
                continue
            yield {'kind': 'plain', 't': t, 'pq': d['pair_query_len']}, n, n > 0
    elif shard['kind'] == 'mod':
        # target: residues + one tagged slot (or none); slot in {None, 'n', 'c', 0..n-1}
        for t in _strings(n, n):
            if not t.startswith(pre):
                continue
            for tslot in [None, 'n', 'c'] + list(range(n)):
                yield {'kind': 'mod', 't': t, 'tslot': tslot}, n + (tslot is not None), True
                if tslot is not None:
                    yield {'kind': 'mod', 't': t, 'tslot': tslot, 'ttag': 11}, n + 2, True
                    yield {'kind': 'mod', 't': t, 'tslot': tslot, 'ttag': 12}, n + 2, True
    elif shard['kind'] == 'glob':
        for t in _strings(n, n):
            if t.startswith(pre):
                yield {'kind': 'glob', 't': t}, n + 1, True
    elif shard['kind'] == 'iv':
        for t in _strings(n, n):
            if not t.startswith(pre):
                continue
            for a in range(n):
                for b in range(a + 1, n + 1):
                    for tags in ([1], [1, 2], [1, 1]):
                        yield {'kind': 'iv', 't': t, 'iv': [a, b, tags]}, n + len(tags), True
    else:
        for t in _strings(n, n):
            if not t.startswith(pre):
                continue
            # 0 none, 1 tag [1], 2 tag [2], 12 tags [1][2], 21 tags [2][1] (the same modified residue written two ways)
            for tmods in itertools.product((0, 1, 2, 12, 21) if n <= TWO_TAG_N[tier] else (0, 1, 2), repeat=n):
                if tmods[0] != shard['tm0']:
                    continue
                yield {'kind': 'unordered', 't': t, 'tm': list(tmods)}, n, True


# ---- rendering (own, no library) -------------------------------------------------------------------------------
def render(seq, res=None, nterm=None, cterm=None, iv=None, labile=None):
    res = res or {}
    s = ''.join('{%s}' % m for m in (labile or ()))
    if nterm:
        s += ''.join(f'[{m}]' for m in nterm) + '-'
    for i, a in enumerate(seq):
        if iv and iv[0] == i:
            s += '('
        s += a + ''.join(f'[{m}]' for m in res.get(i, ()))
        if iv and iv[1] == i + 1:
            s += ')' + ''.join(f'[{m}]' for m in iv[2])
    if cterm:
        s += '-' + ''.join(f'[{m}]' for m in cterm)
    return s


def model(seq, slot, tag):
    """tag 1 / 2: one modification; tag 11: the modification 1 written twice on the same site"""
    tags = {11: [1, 1], 12: [1, 2], 21: [2, 1]}.get(tag, [tag])
    res, nt, ct = {}, None, None
    if slot == 'n':
        nt = tags
    elif slot == 'c':
        ct = tags
    elif slot is not None:
        res = {slot: tags}
    return seq, res, nt, ct


def occurs(T, Q, ignore_mods):
    """Brute force: all offsets where residues coincide and (unless ignored) mods coincide on that stretch."""
    tseq, tres, tnt, tct = T
    qseq, qres, qnt, qct = Q
    out = []
    n, m = len(tseq), len(qseq)
    if n == 0 or m == 0:
        return out
    for i in range(0, n - m + 1):
        if tseq[i:i + m] != qseq:
            continue
        if not ignore_mods:
            if any(sorted(tres.get(i + j, [])) != sorted(qres.get(j, [])) for j in range(m)):
                continue
            if sorted((tnt or []) if i == 0 else []) != sorted(qnt or []):
                continue
            if sorted((tct or []) if i + m == n else []) != sorted(qct or []):
                continue
        out.append(i)
    return out


def cover(T, Qs, accumulate, ignore_mods):
    arr = [0] * len(T[0])
    for Q in Qs:
        for i in occurs(T, Q, ignore_mods):
            for j in range(i, i + len(Q[0])):
                arr[j] = arr[j] + 1 if accumulate else 1
    return arr


def check(case, ctx):
    p = lib.pt()
    kind = case['kind']
    if kind == 'plain':
        t = case['t']
        T = (t, {}, None, None)
        queries = list(_strings(1, 4))
        nocc = 0
        for q in queries:
            Q = (q, {}, None, None)
            exp = occurs(T, Q, True)
            nocc += len(exp)
            for ig in (False, True):
                st, got = lib.call(p.find_subsequence_indices, t, q, ig)
                ctx.evals += 1
                if st != 'ok' or sorted(got) != exp:
                    ctx.fail('find', exp, got, call=['find_subsequence_indices', t, q, ig])
            st, got = lib.call(p.is_subsequence, q, t, True)
            ctx.evals += 1
            if st != 'ok' or got is not (len(exp) > 0):
                ctx.fail('is_subsequence-ordered', len(exp) > 0, got, call=['is_subsequence', q, t, True])
        small = [q for q in queries if len(q) <= case['pq']]
        lists = [[q] for q in queries] + [[a, b] for a in small for b in small] + [[]]
        for ql in lists:
            Qs = [(q, {}, None, None) for q in ql]
            for acc in (False, True):
                exp = cover(T, Qs, acc, False)
                st, got = lib.call(p.coverage, t, list(ql), acc, False)
                ctx.evals += 1
                if st != 'ok' or list(got) != exp:
                    ctx.fail('coverage', exp, got, call=['coverage', t, ql, acc, False])
            exp = cover(T, Qs, False, False)
            expp = (sum(exp) / len(exp)) if exp else 0
            for ig in (None, False, True):
                st, got = lib.call(p.percent_coverage, t, list(ql)) if ig is None else \
                    lib.call(p.percent_coverage, t, list(ql), ignore_mods=ig)
                ctx.evals += 1
                if st != 'ok' or not lib.close(got, expp, 1e-12) or not (0 <= got <= 1):
                    ctx.fail('percent_coverage', expp, got, call=['percent_coverage', t, ql, ig])
        ctx.outcome = [t, nocc]
    elif kind == 'mod':
        t = case['t']
        n = len(t)
        T = model(t, case['tslot'], case.get('ttag', 1))
        ts = render(*T)
        nocc = 0
        for m in range(1, min(3, n) + 1):
            for q in _strings(m, m):
                for qslot in [None, 'n', 'c'] + list(range(m)):
                    for qtag in (1, 2, 11, 12, 21):
                        if qslot is None and qtag != 1:
                            continue
                        Q = model(q, qslot, qtag)
                        qs = render(*Q)
                        for ig in (False, True):
                            exp = occurs(T, Q, ig)
                            nocc += len(exp)
                            st, got = lib.call(p.find_subsequence_indices, ts, qs, ig)
                            ctx.evals += 1
                            if st != 'ok' or sorted(got) != exp:
                                ctx.fail('find-mod', exp, got, call=['find_subsequence_indices', ts, qs, ig])
                        for acc in (False, True):
                            for ig in (False, True):
                                exp = cover(T, [Q], acc, ig)
                                st, got = lib.call(p.coverage, ts, [qs], acc, ig)
                                ctx.evals += 1
                                if st != 'ok' or list(got) != exp:
                                    ctx.fail('coverage-mod', exp, got, call=['coverage', ts, [qs], acc, ig])
                        for ig in (False, True):
                            expc = cover(T, [Q], False, ig)
                            st, got = lib.call(p.percent_coverage, ts, [qs], ignore_mods=ig)
                            ctx.evals += 1
                            if st != 'ok' or not lib.close(got, sum(expc) / len(expc), 1e-12):
                                ctx.fail('percent_coverage-mod', sum(expc) / len(expc), got,
                                         call=['percent_coverage', ts, [qs], ig])
                        # one parsed target object reused for a history of queries (search with and without modifications,
                        # coverage, percent coverage, containment): every answer equals the answer for the text
                        if qtag in (1, 12):
                            tobj = p.parse(ts)
                            hist = [('percent_coverage', lambda: p.percent_coverage(tobj, [qs], ignore_mods=True),
                                     lambda: sum(cover(T, [Q], False, True)) / n),
                                    ('find', lambda: sorted(p.find_subsequence_indices(tobj, qs, False)), lambda: occurs(T, Q, False)),
                                    ('coverage', lambda: list(p.coverage(tobj, [qs], True, True)), lambda: cover(T, [Q], True, True)),
                                    ('is_subsequence', lambda: p.is_subsequence(qs, tobj, True), lambda: len(occurs(T, Q, False)) > 0),
                                    ('find-ignore', lambda: sorted(p.find_subsequence_indices(tobj, qs, True)), lambda: occurs(T, Q, True)),
                                    ('coverage-strict', lambda: list(p.coverage(tobj, [qs], False, False)), lambda: cover(T, [Q], False, False))]
                            for name, fn, ref in hist:
                                st, got = lib.call(fn)
                                ctx.evals += 1
                                e = ref()
                                if st != 'ok' or (not lib.close(got, e, 1e-12) if isinstance(e, float) else got != e):
                                    ctx.fail('reused-target-object', e, got, step=name, target=ts, query=qs,
                                             note='history on one parsed target: ' + ', '.join(h[0] for h in hist))
                                    break
                        # the caller's own LIST of peptides used for two requests (modifications ignored, then respected)
                        if qtag in (1, 12):
                            lst = [qs]
                            lib.call(p.coverage, ts, lst, True, True)
                            lib.call(p.percent_coverage, ts, lst, ignore_mods=True)
                            st, got = lib.call(p.coverage, ts, lst, False, False)
                            ctx.evals += 3
                            e = cover(T, [Q], False, False)
                            if lst != [qs] or not isinstance(lst[0], str):
                                ctx.fail('coverage-changes-the-list', [qs], [str(x) for x in lst], call=['coverage', ts, [qs]])
                            elif st != 'ok' or list(got) != e:
                                ctx.fail('coverage-second-use-of-list', e, got, call=['coverage', ts, [qs], False, False],
                                         note='the same list object was used with ignore_mods=True before')
                        # two listed peptides with the same residues and different modifications, given as strings,
                        # as annotation objects, and mixed (the documentation recommends passing parsed objects)
                        if qtag in (1, 12):
                            for Q2 in (model(q, None, 1), model(q, 0, 2 if (qslot, qtag) == (0, 1) else 1)):
                                if Q2 == Q:
                                    continue
                                qs2 = render(*Q2)
                                for order in ((Q, Q2), (Q2, Q)):
                                    texts = [render(*order[0]), render(*order[1])]
                                    for acc in (False, True):
                                        exp = cover(T, list(order), acc, False)
                                        for form in ('str', 'annotation', 'mixed'):
                                            if form == 'str':
                                                arg = list(texts)
                                            elif form == 'annotation':
                                                arg = [p.parse(x) for x in texts]
                                            else:
                                                arg = [texts[0], p.parse(texts[1])]
                                            st, got = lib.call(p.coverage, ts if form == 'str' else p.parse(ts), arg, acc, False)
                                            ctx.evals += 1
                                            if st != 'ok' or list(got) != exp:
                                                ctx.fail('coverage-list', exp, got, call=['coverage', ts, texts, acc, False],
                                                         given_as=form)
        ctx.outcome = [ts, nocc]
    elif kind == 'multi':
        t = case['t']
        n = len(t)
        ks = [i for i, c in enumerate(t) if c == 'K']
        tags = {'all1': lambda j: [1], 'alternate': lambda j: [1 + j % 2], 'first1-rest2': lambda j: [1] if j == 0 else [2]}[case['layout']]
        T = (t, {i: tags(j) for j, i in enumerate(ks)}, None, None)
        ts = render(*T)
        nocc = 0
        subs = sorted({t[i:i + m] for m in (1, 2, 3) for i in range(0, n - m + 1)})
        for q in subs:
            qk = [i for i, c in enumerate(q) if c == 'K']
            for assign in itertools.product((None, [1], [2]), repeat=len(qk)):
                Q = (q, {i: a for i, a in zip(qk, assign) if a}, None, None)
                qs = render(*Q)
                for ig in (False, True):
                    exp = occurs(T, Q, ig)
                    nocc += len(exp)
                    st, got = lib.call(p.find_subsequence_indices, ts, qs, ig)
                    ctx.evals += 1
                    if st != 'ok' or list(got) != exp:         # ascending offsets
                        ctx.fail('find-multi', exp, got, call=['find_subsequence_indices', ts, qs, ig])
                    for acc in (False, True):
                        e2 = cover(T, [Q], acc, ig)
                        st, got = lib.call(p.coverage, ts, [qs], acc, ig)
                        ctx.evals += 1
                        if st != 'ok' or list(got) != e2:
                            ctx.fail('coverage-multi', e2, got, call=['coverage', ts, [qs], acc, ig])
                    e3 = cover(T, [Q], False, ig)
                    st, got = lib.call(p.percent_coverage, ts, [qs], ignore_mods=ig)
                    ctx.evals += 1
                    if st != 'ok' or not lib.close(got, sum(e3) / n, 1e-12):
                        ctx.fail('percent_coverage-multi', sum(e3) / n, got, call=['percent_coverage', ts, [qs], ig])
                st, got = lib.call(p.is_subsequence, qs, ts, True)
                ctx.evals += 1
                if st != 'ok' or got is not (len(occurs(T, Q, False)) > 0):
                    ctx.fail('is_subsequence-multi', len(occurs(T, Q, False)) > 0, got, call=['is_subsequence', qs, ts, True])
        ctx.outcome = [ts, nocc]
    elif kind == 'glob':
        # annotations of the whole peptide (charge, adducts, label, global rule, labile, unknown position) belong to the
        # comparison: a query is found where its residues occur iff it carries the same ones as the target
        t = case['t']
        n = len(t)
        nocc = 0

        def wr(g, seq):
            return seq + g if g.startswith('/') else g + seq
        for m in (1, 2):
            for q in _strings(m, m):
                plain = [i for i in range(0, n - m + 1) if t[i:i + m] == q]
                for gt in GLOBALS:
                    for gq in GLOBALS:
                        ts, qs = wr(gt, t), wr(gq, q)
                        exp = plain if gt == gq else []
                        nocc += len(exp)
                        st, got = lib.call(p.find_subsequence_indices, ts, qs, False)
                        ctx.evals += 1
                        if st != 'ok' or sorted(got) != exp:
                            ctx.fail('find-global', exp, got, call=['find_subsequence_indices', ts, qs, False])
                        if gq == GLOBALS[1] or gt == gq:
                            st, got = lib.call(p.find_subsequence_indices, ts, qs, True)
                            ctx.evals += 1
                            if st != 'ok' or sorted(got) != plain:
                                ctx.fail('find-global-ignore-mods', plain, got,
                                         call=['find_subsequence_indices', ts, qs, True])
        ctx.outcome = [t, nocc]
    elif kind == 'iv':
        t = case['t']
        n = len(t)
        a, b, tags = case['iv']
        ts = render(t, iv=(a, b, tags))
        nocc = 0
        for m in range(1, min(4, n) + 1):
            for q in _strings(m, m):
                qivs = [None] + [(qa, qb, qt) for qa in range(m) for qb in range(qa + 1, m + 1)
                                 for qt in ([1], [1, 2], [2, 1], [1, 1], [2])]
                for qiv in qivs:
                    qs = render(q, iv=qiv)
                    exp, dontcare = [], []
                    for i in range(0, n - m + 1):
                        if t[i:i + m] != q:
                            continue
                        inside = i <= a and b <= i + m
                        outside = b <= i or a >= i + m
                        if not inside and not outside:
                            dontcare.append(i)       # the stretch cuts the interval: outside the clause
                        elif inside and qiv is not None and (qiv[0], qiv[1]) == (a - i, b - i) and \
                                sorted(qiv[2]) == sorted(tags):
                            exp.append(i)
                        elif outside and qiv is None:
                            exp.append(i)
                    nocc += len(exp)
                    st, got = lib.call(p.find_subsequence_indices, ts, qs, False)
                    ctx.evals += 1
                    if st != 'ok' or sorted(x for x in got if x not in dontcare) != exp:
                        ctx.fail('find-interval', exp, got, call=['find_subsequence_indices', ts, qs, False],
                                 offsets_cutting_the_interval=dontcare)
                    st, got = lib.call(p.find_subsequence_indices, ts, qs, True)
                    ctx.evals += 1
                    expi = [i for i in range(0, n - m + 1) if t[i:i + m] == q]
                    if st != 'ok' or sorted(got) != expi:
                        ctx.fail('find-interval-ignore-mods', expi, got, call=['find_subsequence_indices', ts, qs, True])
        ctx.outcome = [ts, nocc]
    else:
        t, tm = case['t'], case['tm']
        n = len(t)
        TAGS = {0: [], 1: [1], 2: [2], 12: [1, 2], 21: [2, 1]}
        tres = {i: TAGS[m] for i, m in enumerate(tm) if m}
        ntrue = 0

        def units(seq, mods, nt, ct, lab):
            # a peptide as a multiset of (residue, own tag, N-terminal tag / labile tag if first, C-terminal tag if last)
            return sorted((seq[i], tuple(sorted(TAGS[mods[i]])), nt if i == 0 else 0, ct if i == len(seq) - 1 else 0,
                           lab if i == 0 else 0)
                          for i in range(len(seq)))
        tvars = ((0, 0, 0), (3, 4, 0), (3, 0, 0), (0, 4, 0), (0, 0, 5), (3, 0, 5)) if n <= 3 else ((0, 0, 0),)
        for tnt, tct, tlab in tvars:
            ts = render(t, tres, [tnt] if tnt else None, [tct] if tct else None, labile=[tlab] if tlab else None)
            tbag = units(t, tm, tnt, tct, tlab)
            for m in range(1, min(3, n + 1) + 1):
                for q in _strings(m, m):
                    for qm in itertools.product((0, 1, 2, 12, 21) if m <= 2 and any(x > 2 for x in tm) else (0, 1, 2), repeat=m):
                        if m == 1:
                            qvars = ((0, 0, 0), (3, 0, 0), (0, 4, 0), (3, 4, 0), (0, 0, 5), (3, 0, 5))
                        elif m == 2 and (tnt or tct or tlab):
                            qvars = ((0, 0, 0), (3, 0, 0), (0, 4, 0), (0, 0, 5))
                        else:
                            qvars = ((0, 0, 0),)
                        for qnt, qct, qlab in qvars:
                            qs = render(q, {i: TAGS[x] for i, x in enumerate(qm) if x}, [qnt] if qnt else None,
                                        [qct] if qct else None, labile=[qlab] if qlab else None)
                            qbag = units(q, qm, qnt, qct, qlab)
                            rest = list(tbag)
                            exp = True
                            for x in qbag:
                                if x in rest:
                                    rest.remove(x)
                                else:
                                    exp = False
                                    break
                            ntrue += exp
                            st, got = lib.call(p.is_subsequence, qs, ts, False)
                            ctx.evals += 1
                            if st != 'ok' or got is not exp:
                                ctx.fail('is_subsequence-unordered', exp, got, call=['is_subsequence', qs, ts, False])
        ts = render(t, tres)
        ctx.outcome = [ts, ntrue]


def _d16(case, f):
    """D16: non-overlapped scan — the library's offsets are exactly the greedy non-overlapping subset of the true
    offsets (or the clause is a coverage/percent computed from them)."""
    return False


CLASSIFIERS = {}
