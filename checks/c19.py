"""C19 — combinatorial expansions are exactly the combinatorics of the modified residues.

Space (a): residue strings (incl. repeated residues carrying different modifications) x slots (residue mods, N-term,
C-term, labile, static, isotope, unknown, charge; no intervals) x size/repeat.  Oracle: itertools over the list of
(residue, own modifications) units of the abstract peptide, wrapped in the unchanged prefix/suffix."""
import itertools
import math

from mc import lib, pmodel, space
from checks import c01

CASE_TIMEOUT_S = 900      # wall-clock horizon per state (states of this check bundle many sub-states; generous for loaded machines)
PROPERTY = 'C19'
RULE = ('deviation-bounded product (<=3 of 10 slots) over abstract peptides on the residue strings K, KK, PEK, KPK, PEKK '
        '(quick) + PEKTK, AAKA (thorough); per state the four expansions for every size/repeat in 1..n, None and n+1, '
        'through the string function, the annotation method and the method of an object whose modification map was '
        'filled right to left; a state = one peptide (all sizes inside); non-trivial = '
        'every state')
ASSUMPTIONS = ['results are compared in order with itertools.permutations / combinations / combinations_with_replacement / '
               'product over the unit list; product is capped at n<=4 (n^n results)']

AXES = ['r0', 'rmid', 'rlast', 'nterm', 'cterm', 'labile', 'static', 'isotope', 'unknown', 'charge']


def values_at(axis, level, n):
    if axis == 'r0':
        return [[['1', 1]], [['Oxidation', 2], ['1.5', 1]], [['Formula:[13C2][15N]H6', 1], ['Xlink:DTSSP[88]', 2]]]
    if axis == 'rmid':
        return [[['2', 1]]]
    if axis == 'rlast':
        return [[['3', 1]], [['1', 1]]]
    if axis == 'nterm':
        return [[['Acetyl', 1]]]
    if axis == 'cterm':
        return [[['Amidated', 1]], [['Methyl', 2]]]
    if axis == 'labile':
        return [[['Glycan:Hex', 1]]]
    if axis == 'static':
        return [[{'mods': [['Carbamidomethyl', 1]], 'targets': ['K']}], [{'mods': [['10', 1]], 'targets': ['N-Term']}]]
    if axis == 'isotope':
        return [['13C']]
    if axis == 'unknown':
        return [[['Phospho', 1]]]
    if axis == 'charge':
        return [[2, None, None], [1, None, '+Na+'], [-1, None, None]]
    raise KeyError(axis)


def bases(tier):
    return ['K', 'KK', 'PEK', 'KPK', 'PEKK'] + (['PEKTK', 'AAKA'] if tier == 'thorough' else [])


def describe(tier):
    return {'bases': bases(tier), 'deviation_bound': 3, 'axes': AXES,
            'long_base': '%s at deviation <= %d, every size incl. 6^6 products at deviation <= 1' % (LONG_BASE, 2 if tier == 'thorough' else 1)}


def axes_for(n):
    ax = list(AXES)
    if n < 3:
        ax.remove('rmid')
    if n < 2:
        ax.remove('rlast')
    return ax


LONG_BASE = 'PEKTWK'    # the upper end of the quantifier (length 6: 720 permutations, 462 multisets, 6^6 = 46656 tuples)


def shards(tier):
    out = []
    for seq in bases(tier):
        for sh in space.dev_shards(axes_for(len(seq)), 3):
            sh['seq'] = seq
            out.append(sh)
    for sh in space.dev_shards(axes_for(len(LONG_BASE)), 2 if tier == 'thorough' else 1):
        sh['seq'] = LONG_BASE
        out.append(sh)
    return out


def gen(shard, tier):
    seq = shard['seq']
    n = len(seq)
    for slots in space.dev_states(shard, lambda a, lv: values_at(a, lv, n)):
        yield {'seq': seq, 'slots': slots}, shard['k'], True


def with_units(P, chosen):
    Q = {k: v for k, v in P.items() if k not in ('res', 'seq')}
    Q['seq'] = ''.join(u[0] for u in chosen)
    res = [[i, u[1]] for i, u in enumerate(chosen) if u[1]]
    if res:
        Q['res'] = res
    return Q


def check(case, ctx):
    p = lib.pt()
    P = c01.build(case['seq'], case['slots'])
    s = pmodel.render(P)
    n = len(P['seq'])
    res = {int(i): ms for i, ms in P.get('res', [])}
    units = [(aa, res.get(i)) for i, aa in enumerate(P['seq'])]
    nres = 0
    ops = [('permutations', lambda k: itertools.permutations(units, k), lambda k: math.perm(n, k)),
           ('combinations', lambda k: itertools.combinations(units, k), lambda k: math.comb(n, k)),
           ('combinations_with_replacement', lambda k: itertools.combinations_with_replacement(units, k),
            lambda k: math.comb(n + k - 1, k)),
           ('product', lambda k: itertools.product(units, repeat=k), lambda k: n ** k)]
    for name, it, count in ops:
        for size in list(range(1, n + 2)) + [None]:
            k = n if size is None else size
            cap = 50000 if len(case['slots']) <= 1 else 8000       # 6^6 = 46656 results lie inside the quantifier
            if count(k) > cap:
                continue
            expected = [with_units(P, ch) for ch in it(k)]
            if len(expected) != count(k):
                raise AssertionError('oracle count')
            for how in ('function', 'method', 'method-on-reversed-map'):
                if how == 'function':
                    st, got = lib.call(getattr(p, name), s, size)
                elif how == 'method':
                    a = p.parse(s)
                    st, got = lib.call(getattr(a, name), size)
                else:
                    # the same peptide as an object whose residue-modification map was filled right to left
                    if len(res) < 2 or size not in (None, 1, n):
                        continue
                    d = p.parse(s).dict()
                    d['internal_mods'] = {k2: d['internal_mods'][k2] for k2 in sorted(d['internal_mods'], reverse=True)}
                    a = p.create_annotation(**d)
                    st, got = lib.call(getattr(a, name), size)
                ctx.evals += 1
                call = [name, s, size, how]
                if st != 'ok':
                    ctx.fail('raises', len(expected), got, call=call)
                    continue
                if len(got) != len(expected):
                    ctx.fail('count', len(expected), len(got), call=call)
                    continue
                nres += len(got)
                big = len(got) > 3000      # large expansions: every 41st result plus both ends is compared field by field
                for idx, (e, g) in enumerate(zip(expected, got)):
                    if big and not (idx < 50 or idx >= len(got) - 50 or idx % 41 == 0):
                        if (g if how == 'function' else None) is not None and not isinstance(g, str):
                            ctx.fail('result-type', 'str', type(g).__name__, call=call, index=idx)
                            break
                        continue
                    if how == 'function':
                        stp, ga = lib.call(p.parse, g)
                        if stp != 'ok':
                            ctx.fail('result-unparsable', pmodel.render(e), g, call=call, index=idx)
                            break
                    else:
                        ga = g
                    d = pmodel.diff(pmodel.expected(e), pmodel.observed(ga))
                    if d:
                        ctx.fail('result', pmodel.render(e), g if how == 'function' else g.serialize(), call=call,
                                 index=idx, diff=d)
                        break
    # size / repeat passed by keyword means the same as passed by position
    for name, it, count in ops:
        kwname = 'repeat' if name == 'product' else 'size'
        for size in (1, n):
            if name in ('product', 'combinations_with_replacement') and n ** size > 3000:
                continue
            a1 = lib.call(getattr(p, name), s, size)
            a2 = lib.call(getattr(p, name), s, **{kwname: size})
            a3 = lib.call(getattr(p.parse(s), name), **{kwname: size})
            ctx.evals += 3
            k3 = [x.serialize() for x in a3[1]] if a3[0] == 'ok' else a3[1]
            if a1[0] != 'ok' or a2[0] != 'ok' or a1[1] != a2[1] or k3 != a1[1]:
                ctx.fail('keyword-size-differs', a1[1] if a1[0] != 'ok' else len(a1[1]),
                         [a2[1] if a2[0] != 'ok' else len(a2[1]), k3 if a3[0] != 'ok' else len(k3)], call=[name, s, {kwname: size}])
    # the same call again after the caller edited the previous result in place (size 0 is outside the quantifier: the
    # unchanged library raises there for peptides with a charge or a C-terminal modification)
    for name, it, count in ops:
        for how in ('function', 'method'):
            fn = (lambda sz: getattr(p, name)(s, sz)) if how == 'function' else (lambda sz: getattr(p.parse(s), name)(sz))
            if n <= 3:
                st1, first = lib.call(fn, None)
                if st1 == 'ok' and first:
                    keep = [x if isinstance(x, str) else x.serialize() for x in first]
                    first.reverse()
                    first.pop()
                    st2, second = lib.call(fn, None)
                    ctx.evals += 2
                    got2 = [x if isinstance(x, str) else x.serialize() for x in second] if st2 == 'ok' else second
                    if got2 != keep:
                        ctx.fail('result-after-editing-previous-result', keep, got2, call=[name, s, None, how])
    # the same residues and modified positions with float-typed shifts first, then with int-typed shifts (either order, one
    # process): each expansion keeps the spelling of its own peptide
    if not case['slots']:
        twins = [('[Acetyl]-' + ''.join(c + ('[57.0]' if i == 0 else '[1.0]' if i == n - 1 else '') for i, c in enumerate(P['seq'])),
                  '<13C>' + ''.join(c + ('[57]' if i == 0 else '[1]' if i == n - 1 else '') for i, c in enumerate(P['seq'])) + '/2')]
        for ta, tb in twins + [(b_, a_) for a_, b_ in twins]:
            for name, it, count in ops:
                lib.call(getattr(p, name), ta, 1)
                r = lib.call(getattr(p, name), tb, 1)
                ctx.evals += 2
                wantk = sorted(set(x.serialize() for x in p.parse(tb).split()))
                gotk = sorted(set(r[1])) if r[0] == 'ok' else r[1]
                pre, suf = p.parse(tb).serialize_start(), p.parse(tb).serialize_end()
                wantk = sorted(set(pre + (c + ('[57.0]' if (i == 0 and '57.0' in tb) else '[57]' if i == 0 else
                                               '[1.0]' if (i == n - 1 and '1.0' in tb) else '[1]' if i == n - 1 else '')) + suf
                                   for i, c in enumerate(P['seq']))) if n > 1 else None
                if wantk is not None and gotk != wantk:
                    ctx.fail('int-float-twin-history', wantk, gotk, call=[name, tb, 1], asked_before=ta)
                    break
    # one parsed object used for all four expansions in turn (and twice over): each result equals the result for the text,
    # and the object still writes the same text afterwards
    obj = p.parse(s)
    k2 = min(2, n)
    for rnd in (1, 2):
        for name, it, count in ops:
            a1 = lib.call(getattr(p, name), s, k2)
            a2 = lib.call(getattr(obj, name), k2)
            ctx.evals += 2
            got2 = [x.serialize() for x in a2[1]] if a2[0] == 'ok' else a2[1]
            if a1[0] != a2[0] or (a1[0] == 'ok' and a1[1] != got2):
                ctx.fail('reused-object', a1[1], got2, call=[name, s, k2, 'method'], round=rnd)
                break
    st9, s9 = lib.call(obj.serialize)
    if st9 != 'ok' or pmodel.diff(pmodel.expected(P), pmodel.observed(p.parse(s9))):
        ctx.fail('reused-object-changed', s, s9, text=s)
    ctx.outcome = [s, nres]


CLASSIFIERS = {}
