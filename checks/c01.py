"""C01 — ProForma text <-> annotation are inverses.

Space (a): deviation-bounded product over notation slots of an abstract peptide (mc/pmodel.py), rendered by an
independent renderer; multi-chain product space.  Oracle: fields read off the abstract peptide."""
import itertools

from mc import lib, pmodel, space, catalogue

PROPERTY = 'C01'
RULE = ('deviation-bounded product space over 13 notation slots (labile, static rule, isotope label, unknown, N-term, '
        'three residue slots, interval, C-term, charge/adducts, prefix order) x base residue strings, value tiers per '
        'level; plus all single letters, and every ordered 2-/3-tuple of 10 representative chains x link words; a '
        'state is distinct by its slot assignment, non-trivial when at least one slot is non-default')
ASSUMPTIONS = ['modification spellings are those of mc/catalogue.py; residue strings are K, PEK, MKPEMK and single letters',
               'a static rule is compared through the text the rule was written with (the library keeps rules as text)',
               'the N-terminal group is always rendered directly before the first residue']

T = catalogue
L1_TEXTS = (list(T.NAMED) + list(T.FORMULA) + list(T.GLYCAN) + list(T.SHIFTS) + list(T.PREFIXED_SHIFTS) +
            list(T.DECORATED) + T.ZERO_MASS + T.NO_MASS + ['R:AA0037', 'G:G59626AS', 'Cation:Fe[III]',
                                                            'N6,N6-dimethyl-L-lysine', 'Hex(1)HexNAc(1)',
                                                            '[3-(2,5)-dioxopyrrolidin-1-yloxycarbonyl)-propyl]dimethyloctylammonium',
                                                            'Formula:[13C2][15N]H6[2H2]', '12345678901234567890.5', '1E3', '-2.5e-7',
                                                            # alternatives containing a number: kept verbatim as one text
                                                            'Oxidation|15.995', '15.995|Oxidation', '+15.995|Oxidation',
                                                            'Oxidation|+15.995', '15.995|79.966'])
L2_TEXTS = ['Oxidation', '15.995', 'UNIMOD:35', 'Label:13C(6)', 'Formula:[13C2][12C-2]H2N', 'Xlink:DTSSP[88]',
            '-18.0106', 'Oxidation|INFO:note']
L3_TEXTS = ['Oxidation', '1.5', 'Formula:[13C2][12C-2]H2N', 'U:+15.995']
L4_TEXTS = ['Oxidation', '1.5']


def modlists(level):
    if level <= 1:
        out = []
        for t in L1_TEXTS:
            out += [[[t, 1]], [[t, 2]], [[t, 3]]]
        out += [[['Oxidation', 1], ['15.995', 1]], [['1', 1], ['1', 1]], [['Acetyl', 2], ['Phospho', 1]]]
        out += [[[t, m]] for t in ('Oxidation', '15.995', 'Formula:C2H2O', 'Glycan:Hex') for m in (10, 12, 100)]   # ^n, n >= 10
        return out
    if level == 2:
        out = [[[t, m]] for t in L2_TEXTS for m in (1, 2)]
        out.append([['Oxidation', 1], ['15.995', 2]])
        return out
    if level == 3:
        return [[[t, 1]] for t in L3_TEXTS] + [[['Oxidation', 2]], [['Oxidation', 1], ['1.5', 1]]]
    return [[[t, 1]] for t in L4_TEXTS]


TARGETS = [['K'], ['S', 'T'], ['N-Term'], ['C-Term'], ['N-Term', 'K'], ['M']]


def static_values(level):
    out = []
    tg = TARGETS if level <= 2 else TARGETS[:3]
    for ml in modlists(max(level, 2)) if level > 1 else modlists(1)[::3] + modlists(1)[-3:]:
        for t in tg:
            out.append([{'mods': ml, 'targets': t}])
    if level <= 2:
        out.append([{'mods': [['Oxidation', 1]], 'targets': ['M']}, {'mods': [['1.5', 1]], 'targets': ['K']}])
        out.append([{'mods': [['Oxidation', 2]], 'targets': ['M']}])
        # two rules with the same modification text and different targets are two rules
        out.append([{'mods': [['Oxidation', 1]], 'targets': ['M']}, {'mods': [['Oxidation', 1]], 'targets': ['K']}])
        out.append([{'mods': [['1.5', 1]], 'targets': ['K']}, {'mods': [['1.5', 1]], 'targets': ['N-Term']}])
    return out


ISOTOPES = [['13C'], ['15N'], ['D'], ['13C', '15N'], ['18O'], ['T'], ['2H']]


def interval_values(n, level):
    spans = [(0, n)] if n == 1 else [(0, 2), (1, 2), (1, n), (0, n), (0, 1)]
    out = []
    # single modifications and a name + number pair (two kinds of value on one interval)
    mls = [None] + (modlists(2)[:6] + [modlists(2)[-1], [['1.5', 1], ['Phospho', 1], ['Formula:C2H2O', 2]]] if level <= 2 else [[['1.5', 1]]])
    for (a, b) in spans:
        for amb in (False, True):
            for ml in mls:
                out.append([[a, b, amb, ml]])
    if n >= 3:
        out.append([[0, 1, False, [['1.5', 1]]], [1, n, True, [['Oxidation', 1]]]])
        out.append([[0, 1, False, None], [2, n, False, [['Oxidation', 2]]]])
        out.append([[0, 1, True, None], [1, n, False, [['Oxidation', 1]]]])      # ambiguous, then plain
        out.append([[0, 1, True, [['1.5', 1]]], [2, n, False, None]])
    return out


CHARGES = [[2, None, None], [-1, None, None], [12, None, None], [3, '+3', None], [1, None, '+Na+'],
           [2, None, '+2Na+'], [1, None, '+2Na+,-H+'], [2, None, '+Mg2+'], [-1, None, '+Cl-'], [3, None, '+2Na+,+H+']]

AXES = ['labile', 'static', 'isotope', 'unknown', 'nterm', 'r0', 'rmid', 'rlast', 'iv', 'cterm', 'charge', 'order']
PREFIX_AXES = {'labile', 'static', 'isotope', 'unknown'}


def values_at(axis, level, n):
    if axis in ('labile', 'unknown', 'nterm', 'cterm', 'r0', 'rmid', 'rlast'):
        return modlists(level)
    if axis == 'static':
        return static_values(level)
    if axis == 'isotope':
        return ISOTOPES if level <= 2 else ISOTOPES[:3]
    if axis == 'iv':
        return interval_values(n, level)
    if axis == 'charge':
        return CHARGES if level <= 2 else CHARGES[:1] + CHARGES[5:7]
    if axis == 'order':
        return ['permuted']
    raise KeyError(axis)


def bases(tier):
    return ['K', 'PEK'] + (['MKPEMK'] if tier == 'thorough' else [])


def bound(tier):
    return 5 if tier == 'thorough' else 3


def describe(tier):
    return {'bases': bases(tier), 'deviation_bound': bound(tier), 'axes': AXES,
            'long_base': '%s at deviation <= %d' % (LONG_BASE, bound(tier) - 1),
            'level1_spellings': len(L1_TEXTS), 'level2_spellings': len(L2_TEXTS), 'level3_spellings': len(L3_TEXTS),
            'multi_chain': 'all ordered pairs and triples of %d chains x link words' % len(CHAINS)}


def axes_for(seq):
    n = len(seq)
    ax = list(AXES)
    if n < 3:
        ax.remove('rmid')
    if n < 2:
        ax.remove('rlast')
    return ax


LONG_BASE = 'PEMKACDEFGHK'   # 12 residues: positions and interval bounds with two digits


def shards(tier):
    out = []
    for seq in bases(tier) + [LONG_BASE]:
        for sh in space.dev_shards(axes_for(seq), bound(tier) if seq != LONG_BASE else bound(tier) - 1):
            if 'order' in sh['axes'] and len(PREFIX_AXES & set(sh['axes'])) < 2:
                continue
            sh['seq'] = seq
            sh['kind'] = 'dev'
            out.append(sh)
    out.append({'kind': 'letters'})
    out.append({'kind': 'samevalue'})
    for i in range(len(CHAINS)):
        out.append({'kind': 'multi', 'first': i})
    out.append({'kind': 'fullhouse'})
    return out


def build(seq, slots):
    n = len(seq)
    P = {'seq': seq}
    res = []
    for k, v in slots.items():
        if k in ('labile', 'static', 'isotope', 'unknown', 'nterm', 'cterm', 'iv', 'order'):
            P[k] = v
        elif k == 'r0':
            res.append([0, v])
        elif k == 'rmid':
            res.append([n // 2, v])
        elif k == 'rlast':
            res.append([n - 1, v])
        elif k == 'charge':
            P['charge'], P['charge_text'], P['adducts'] = v
    if res:
        P['res'] = res
    return P


CHAINS = [
    {'seq': 'PEK'},
    {'seq': 'K'},
    {'seq': 'PEK', 'cterm': [['Amidated', 1]]},
    {'seq': 'PEK', 'charge': 2, 'adducts': '+2Na+'},
    {'seq': 'PEK', 'charge': 2},
    {'seq': 'PEK', 'charge': -1},
    {'seq': 'PEK', 'labile': [['Glycan:Hex', 1]], 'isotope': ['13C']},
    {'seq': 'PEK', 'nterm': [['Acetyl', 1]], 'res': [[2, [['Xlink:DSS#XL1', 1]]]]},
    {'seq': 'PEK', 'res': [[1, [['1.5', 2]]]], 'iv': [[0, 2, True, None]]},
    {'seq': 'EMK', 'static': [{'mods': [['Oxidation', 1]], 'targets': ['M']}], 'unknown': [['Phospho', 2]]},
]


def gen(shard, tier):
    if shard['kind'] == 'dev':
        seq = shard['seq']
        n = len(seq)
        k = shard['k']
        for slots in space.dev_states(shard, lambda a, lv: values_at(a, lv, n)):
            yield {'kind': 'single', 'seq': seq, 'slots': slots}, k, k > 0
    elif shard['kind'] == 'letters':
        import string
        for c in string.ascii_uppercase:
            yield {'kind': 'single', 'seq': c, 'slots': {}}, 0, False
            yield {'kind': 'single', 'seq': c, 'slots': {'r0': [['Oxidation', 1]]}}, 1, True
            yield {'kind': 'single', 'seq': c + c, 'slots': {'nterm': [['1.5', 1]]}}, 1, True
        yield {'kind': 'single', 'seq': string.ascii_uppercase, 'slots': {}}, 0, False
        yield {'kind': 'single', 'seq': '', 'slots': {}}, 0, False
    elif shard['kind'] == 'samevalue':
        # one number written as an integer in one slot and as a decimal in another slot of the same peptide: each is
        # written back the way it was read (both spellings are the library's own: str(15), str(15.0))
        slots = ['labile', 'unknown', 'nterm', 'r0', 'rmid', 'rlast', 'iv', 'cterm']
        for a, b in itertools.permutations(slots, 2):
            for t1, t2 in (('15', '15.0'), ('15.0', '15'), ('-2', '-2.0'), ('1', '1.0')):
                for m in (1, 2):
                    sl = {}
                    for slot, t in ((a, t1), (b, t2)):
                        sl[slot] = [[0, 2, False, [[t, m]]]] if slot == 'iv' else [[t, m]]
                    yield {'kind': 'single', 'seq': 'PEK', 'slots': sl, 'canonical_text': True}, 2, True
        for t1, t2 in (('15', '15.0'), ('15.0', '15')):
            yield {'kind': 'single', 'seq': 'PEK', 'slots': {'r0': [[t1, 1], [t2, 1]]}, 'canonical_text': True}, 2, True
    elif shard['kind'] == 'multi':
        i = shard['first']
        for j in range(len(CHAINS)):
            for link in (False, True):
                yield {'kind': 'multi', 'chains': [i, j], 'links': [link]}, 2, True, 2
        for j in range(len(CHAINS)):
            for k in range(len(CHAINS)):
                for l1 in (False, True):
                    for l2 in (False, True):
                        yield {'kind': 'multi', 'chains': [i, j, k], 'links': [l1, l2]}, 3, True, 3
    else:
        slots = {'labile': [['Glycan:Hex', 1]], 'static': [{'mods': [['Carbamidomethyl', 1]], 'targets': ['M']}],
                 'isotope': ['13C', '15N'], 'unknown': [['Phospho', 2]], 'nterm': [['Acetyl', 1]],
                 'r0': [['Oxidation', 1], ['1.5', 1]], 'rmid': [['Formula:[13C2][12C-2]H2N', 1]],
                 'rlast': [['-18.0106', 1]], 'iv': [[1, 3, True, [['15.995', 1]]]], 'cterm': [['Methyl', 1]],
                 'charge': [3, None, '+2Na+,+H+']}
        for seq in ('PEK', 'MKPEMK'):
            yield {'kind': 'single', 'seq': seq, 'slots': slots}, 11, True
            yield {'kind': 'single', 'seq': seq, 'slots': dict(slots, order='permuted')}, 12, True


def _roundtrip(ctx, p, s, what):
    """clauses 2 and 3 on an already parsed string s."""
    st, a = lib.call(p.parse, s)
    ctx.evals += 1
    if st != 'ok':
        ctx.fail('parse-raises', 'annotation', a, text=s, what=what)
        return None
    for ip in (False, True):
        st, s1 = lib.call(p.serialize, a, ip)
        ctx.evals += 1
        if st != 'ok':
            ctx.fail('serialize-raises', 'string', s1, text=s, include_plus=ip)
            continue
        st, a1 = lib.call(p.parse, s1)
        ctx.evals += 1
        if st != 'ok':
            ctx.fail('reparse-raises', 'annotation', a1, text=s, serialized=s1, include_plus=ip)
            continue
        multi = hasattr(a, 'annotations')
        if multi != hasattr(a1, 'annotations'):
            ctx.fail('reparse-kind', multi, hasattr(a1, 'annotations'), text=s, serialized=s1)
            continue
        if multi:
            same = (len(a.annotations) == len(a1.annotations) and list(a.connections) == list(a1.connections) and
                    all(pmodel.observed(x) == pmodel.observed(y) for x, y in zip(a.annotations, a1.annotations)))
            eq = same and all(x == y for x, y in zip(a.annotations, a1.annotations))
        else:
            same = pmodel.observed(a) == pmodel.observed(a1)
            eq = (a1 == a) and (a == a1) and not (a1 != a)
        if not same:
            ctx.fail('reparse-fields', None, None, text=s, serialized=s1, include_plus=ip)
        elif not eq:
            ctx.fail('reparse-eq', True, False, text=s, serialized=s1, include_plus=ip)
        st, s2 = lib.call(p.serialize, a1, ip)
        ctx.evals += 1
        if st != 'ok' or s2 != s1:
            ctx.fail('reserialize', s1, s2, text=s, include_plus=ip)
    return a


def _mods_of(a):
    """every modification object reachable through the public fields of a parsed annotation, in a fixed order"""
    out = []
    for f in ('labile_mods', 'static_mods', 'isotope_mods', 'unknown_mods', 'nterm_mods', 'cterm_mods', 'charge_adducts'):
        out += list(getattr(a, f) or [])
    for k in sorted((a.internal_mods or {})):
        out += list(a.internal_mods[k])
    for iv in (a.intervals or []):
        out += list(iv.mods or [])
    return out


def _leaves(x, path=()):
    if isinstance(x, dict):
        for k in sorted(x):
            yield from _leaves(x[k], path + (k,))
    elif isinstance(x, (list, tuple)):
        for i, v in enumerate(x):
            yield from _leaves(v, path + (i,))
    else:
        yield path, x


def _history(ctx, p, s, obs):
    """parse results are the caller's to edit: (1) editing ONE modification object of a result through its public field
    changes one modification of that result and nothing else; (2) after every modification object of an earlier result
    has been edited, parsing the same text again still yields what the notation denotes."""
    for which in (0, -1):
        st, a = lib.call(p.parse, s)
        ctx.evals += 1
        if st != 'ok' or hasattr(a, 'annotations'):
            return
        ms = _mods_of(a)
        if len(ms) < 2:
            break
        before = dict(_leaves(pmodel.observed(a)))
        try:
            ms[which].mult = ms[which].mult + 7
        except Exception:
            return      # modification objects that refuse editing cannot be shared harmfully: clause not applicable
        after = dict(_leaves(pmodel.observed(a)))
        changed = sorted(set(k for k in set(before) | set(after) if before.get(k) != after.get(k)))
        # one [val, mult] pair moves inside its sorted list at most: the multiset of leaves changes by exactly one value
        mb, ma = sorted(map(repr, before.values())), sorted(map(repr, after.values()))
        import collections
        delta = sum((collections.Counter(mb) - collections.Counter(ma)).values())
        if delta != 1:
            ctx.fail('edit-one-mod', 'exactly one multiplier changes', {'changed_leaves': delta, 'paths': [list(c) for c in changed][:6]},
                     text=s, edited=which, note='the multiplier of one modification object of the parse result was raised by 7')
            break
    st, a = lib.call(p.parse, s)
    if st != 'ok' or hasattr(a, 'annotations'):
        return
    try:
        for m in _mods_of(a):
            m.mult = m.mult + 5
            if isinstance(m.val, str):
                m.val = m.val + 'x'
            else:
                m.val = m.val + 1
    except Exception:
        return
    st, a2 = lib.call(p.parse, s)
    ctx.evals += 2
    if st != 'ok' or pmodel.observed(a2) != obs:
        ctx.fail('parse-after-edited-result', obs, pmodel.observed(a2) if st == 'ok' else a2, text=s,
                 note='every modification object of an earlier parse result of the same text was edited in place first')


def check(case, ctx):
    p = lib.pt()
    if case['kind'] == 'single':
        P = build(case['seq'], case['slots'])
        outs = []
        for plus in (False, True):
            s = pmodel.render(P, plus)
            a = _roundtrip(ctx, p, s, 'single')
            if a is None:
                continue
            if hasattr(a, 'annotations'):
                ctx.fail('parse-kind', 'single annotation', 'multi', text=s)
                continue
            if case.get('canonical_text') and not plus:
                st9, s9 = lib.call(p.serialize, a)
                if st9 != 'ok' or s9 != s:
                    ctx.fail('serialize-keeps-spelling', s, s9, text=s)
            exp = pmodel.expected(P, plus)
            obs = pmodel.observed(a)
            d = pmodel.diff(exp, obs)
            if d:
                ctx.fail('parse-fields', None, None, text=s, diff=d)
            outs.append((s, obs))
            if not plus and not d:
                _history(ctx, p, s, obs)
        if len(outs) == 2 and 'static' not in case['slots']:
            if outs[0][1] != outs[1][1]:
                ctx.fail('plus-spelling', outs[0][1], outs[1][1], text=[outs[0][0], outs[1][0]])
        ctx.outcome = outs[0][0] if outs else None
    else:
        chains = [CHAINS[i] for i in case['chains']]
        for plus in (False, True):
            s = pmodel.render_multi(chains, case['links'], plus)
            a = _roundtrip(ctx, p, s, 'multi')
            if a is None:
                continue
            if not hasattr(a, 'annotations'):
                ctx.fail('parse-kind', 'multi annotation', 'single', text=s)
                continue
            if len(a.annotations) != len(chains) or list(a.connections) != list(case['links']):
                ctx.fail('multi-structure', [len(chains), case['links']], [len(a.annotations), list(a.connections)],
                         text=s)
                continue
            for i, (P, x) in enumerate(zip(chains, a.annotations)):
                d = pmodel.diff(pmodel.expected(P, plus), pmodel.observed(x))
                if d:
                    ctx.fail('multi-fields', None, None, text=s, chain=i, diff=d)
            ctx.outcome = s


# ---- known findings ---------------------------------------------------------------------------------------------
def _texts(obj):
    if isinstance(obj, str):
        yield obj
    elif isinstance(obj, dict):
        for v in obj.values():
            yield from _texts(v)
    elif isinstance(obj, list):
        for v in obj:
            yield from _texts(v)


def _d1(case, f):
    """crosslink link token: only the re-parse of a serialized multi-chain string containing a '//' link fails."""
    return (case['kind'] == 'multi' and any(case['links']) and f['clause'] == 'reparse-raises'
            and '\\\\' in str(f.get('serialized', '')))


def _d2(case, f):
    """'>' inside a bracketed name within a <...> static rule."""
    if case['kind'] != 'single' or 'static' not in case['slots']:
        return False
    return any('>' in m[0] for r in case['slots']['static'] for m in r['mods']) and \
        f['clause'] in ('parse-raises', 'parse-fields', 'reparse-raises', 'reparse-fields', 'reserialize')


CLASSIFIERS = {'D1': _d1, 'D2': _d2}
