"""C13 — static and variable modification builders produce exactly the intended forms.

Space (b): residue strings over {P,E,K} x pre-existing modifications x rule sets x terminal rules x max_mods x mode x
return type.  Oracle: own application of static rules; exhaustive subset enumeration for variable rules."""
import itertools
import re as stdre

from mc import lib, pmodel

CASE_TIMEOUT_S = 600      # wall-clock horizon per state (states of this check bundle many sub-states; generous for loaded machines)
PROPERTY = 'C13'
RULE = ('full product: every residue string of length 1..L over {P,E,K} x pre-existing modifications on <=Pm of the '
        'residue/terminal slots x 16 internal rule sets (residue, class, multi-residue, look-behind targets; 1-3 groups of '
        '1-2 mods; two overlapping sets) x 13 N-terminal x 13 C-terminal rule forms (incl. alternation conditions and two rules applying at once) x max_mods 0..4 x 3 modes x 2 return '
        'types; rule values as texts, Mod objects and mixtures; a state = (string, pre-mods, rules); non-trivial = at least one rule matches a site')
ASSUMPTIONS = ['overlapping rule sets offer distinct groups per rule (the union per site is enumerated); formerly: overlapping sets get the weak '
               'clauses of the quantifier', 'terminal variants do not count against max_mods (pinned doctest)',
               'rule regexes are consuming patterns or the empty pattern for termini (site = first consumed residue)']

ALPHA = 'PEK'
G1 = [['a']]
G2 = [['a'], ['b']]
G3 = [['a', 'b']]
G4 = [['a'], ['b'], ['c', 'd']]
INTERNAL = [None, {'P': G1}, {'P': G2}, {'P': G3}, {'E': G1}, {'[PE]': G2}, {'PE': G1}, {'(?<=P)E': G2}, {'K': G4},
            {'P': G1, 'E': G2}, {'P': G2, 'K': G1}, {'P': G1, 'E': G1, 'K': G1}, {'K': 'a'}, {'K': ['a', 'b']},
            {'P': G1, '[PE]': [['c'], ['d']]}, {'PE': [['c']], 'P': G2},
            {'.': G1}, {'.K': G2}]   # one-character and two-character patterns that are regexes, not residues
OVERLAPPING = {14, 15}
QUICK_SKIP_AT_3 = {0, 3, 4, 8, 10, 11, 12, 13}   # rule sets explored on strings of length <= 2 only in the quick tier
TERM = [None, 'n1', [['n1'], ['n2']], {'': 'n1'}, {'P': [['n1']]}, {'K': 'n1', 'E': [['n2']]}, {'.': 'n1'},
        ['n1'], [['n1']], ['n1', 'n2'],   # a list with one member, one group with one member, one group with two
        {'K|E': 'n1'}, {'P|K': [['n1'], ['n2']]},   # residue conditions that are top-level alternations
        {'': 'n1', 'P': 'n2'}, {'[PE]': 'n1', 'P': [['n2']]}]   # two rules that can both apply to one terminus
# the static builder takes one list of mods per target (no alternative groups): the first group of each rule
TERM_PAIRS = [(a, 0) for a in range(len(TERM))] + [(0, b) for b in range(1, len(TERM))] + \
    [(a, b) for a in (1, 2, 4) for b in (1, 2, 4)]
TERM_PAIRS_QUICK = [(a, 0) for a in range(len(TERM))] + [(0, b) for b in range(1, len(TERM))] + \
    [(1, 1), (2, 2), (4, 4), (1, 4), (4, 2)]


def static_internal(ir):
    if ir is None:
        return None
    out = {}
    for rx, v in ir.items():
        g = norm_groups(v)
        out[rx] = list(g[0]) if g else []
    return out


def static_term(rule):
    if rule is None:
        return None
    if isinstance(rule, dict):
        return {rx: (norm_groups(v)[0] if norm_groups(v) else []) for rx, v in rule.items()}
    g = norm_groups(rule)
    return list(g[0]) if g else []


def describe(tier):
    th = tier == 'thorough'
    return {'L': 4 if th else 3, 'premod_slots': 2 if th else 1, 'max_mods': [0, 4], 'internal_rule_sets': len(INTERNAL),
            'terminal_rule_forms': len(TERM)}


def shards(tier):
    d = describe(tier)
    out = []
    for n in range(1, d['L'] + 1):
        for t in itertools.product(ALPHA, repeat=n):
            for ir in range(len(INTERNAL)):
                if tier != 'thorough' and n >= 3 and ir in QUICK_SKIP_AT_3:
                    continue
                out.append({'seq': ''.join(t), 'ir': ir})
    # the upper end of the quantifier: a 10-residue peptide (sites up to index 9, up to 7 eligible sites, max_mods up to 4)
    for ir in LONG_IR:
        out.append({'seq': LONG_SEQ, 'ir': ir})
    return out


LONG_SEQ = 'PEKPEKPEKP'
LONG_IR = [1, 2, 5, 8, 9, 11, 14, 16]


def gen(shard, tier):
    d = describe(tier)
    seq = shard['seq']
    n = len(seq)
    # a residue slot 'i+' carries two pre-existing modifications (modified residues != modification entries)
    slots = ['n', 'c'] + list(range(n)) + [f'{i}+' for i in range(n)]
    if tier != 'thorough' and n >= 3:
        slots = ['n', 0, n - 1, f'{n - 1}+']
    if seq == LONG_SEQ:
        for pre in ([], ['n'], [n - 1], [2, f'{n - 1}+']):
            for nt, ct in ((0, 0), (1, 0), (0, 4)):
                yield {'seq': seq, 'pre': list(pre), 'ir': shard['ir'], 'nt': nt, 'ct': ct}, len(pre) + 1, True
        return
    for k in range(0, (d['premod_slots'] if n <= 2 else 1) + 1):   # two pre-modified slots up to length 2
        for pre in itertools.combinations(slots, k):
            for nt, ct in (TERM_PAIRS if tier == 'thorough' else TERM_PAIRS_QUICK):
                if True:
                    c = {'seq': seq, 'pre': list(pre), 'ir': shard['ir'], 'nt': nt, 'ct': ct}
                    if tier == 'thorough' and n <= 3:
                        c['full'] = True   # every max_mods x mode x return type combination
                    yield c, k + 1, True


# ---- reference model -------------------------------------------------------------------------------------------
def norm_groups(v):
    """VAR_MOD_INPUT -> list of groups (each a list of mod texts)"""
    if isinstance(v, (str, int, float)):
        return [[v]]
    if isinstance(v, list) and all(isinstance(x, (str, int, float)) for x in v):
        return [list(v)] if v else []
    return [list(g) for g in v if g]


def norm_static(v):
    """STATIC_MOD_INPUT -> one list of mods"""
    if isinstance(v, (str, int, float)):
        return [v]
    out = []
    for x in v:
        if isinstance(x, list):
            out.extend(x)
        else:
            out.append(x)
    return out


def sites(seq, rx):
    if rx == '':
        return None  # terminal wildcard
    pat = stdre.compile(rx)
    return [i for i in range(len(seq)) if pat.match(seq, i)]


def term_rule(rule):
    """-> list of (regex or '', value)"""
    if rule is None:
        return []
    if isinstance(rule, dict):
        return list(rule.items())
    return [('', rule)]


def term_applies(seq, rx, end):
    if rx == '':
        return True
    s = sites(seq, rx)
    return (0 in s) if end == 'n' else (len(seq) - 1 in s)


def base_state(case):
    seq = case['seq']
    res = {}
    nt = ct = None
    for s in case['pre']:
        if s == 'n':
            nt = ['x']
        elif s == 'c':
            ct = ['y']
        elif isinstance(s, str) and s.endswith('+'):
            res[int(s[:-1])] = ['z%d' % int(s[:-1]), 'w']
        else:
            res[int(s)] = ['z%d' % int(s)]
    return seq, res, nt, ct


def rend(seq, res, nt, ct):
    P = {'seq': seq}
    if res:
        P['res'] = [[i, [[str(m), 1] for m in ms]] for i, ms in sorted(res.items())]
    if nt:
        P['nterm'] = [[str(m), 1] for m in nt]
    if ct:
        P['cterm'] = [[str(m), 1] for m in ct]
    return pmodel.render(P)


def ref_static(case, mode):
    seq, res, nt, ct = base_state(case)
    out = {k: list(v) for k, v in res.items()}
    ir = static_internal(INTERNAL[case['ir']]) or {}
    for rx, v in ir.items():
        mods = norm_static(v)
        if not mods:
            continue
        for i in sites(seq, rx):
            if i in res:
                if mode == 'overwrite':
                    out[i] = list(mods)
                elif mode == 'append':
                    out[i] = out[i] + list(mods)
            else:
                out[i] = out.get(i, []) + list(mods)
    ont, oct_ = (list(nt) if nt else None), (list(ct) if ct else None)
    for end, rule in (('n', static_term(TERM[case['nt']])), ('c', static_term(TERM[case['ct']]))):
        for rx, v in term_rule(rule):
            mods = norm_static(v)
            if not mods or not term_applies(seq, rx, end):
                continue
            cur_in = nt if end == 'n' else ct
            cur = ont if end == 'n' else oct_
            if cur_in:
                if mode == 'overwrite':
                    new = list(mods)
                elif mode == 'append':
                    new = cur + list(mods)
                else:
                    new = cur
            else:
                new = (cur or []) + list(mods)
            if end == 'n':
                ont = new
            else:
                oct_ = new
    return seq, out, ont, oct_


def ref_variable_skip(case, max_mods):
    """Exhaustive subset enumeration (mode skip). Returns list of rendered forms (a multiset, as a sorted list)."""
    seq, res, nt, ct = base_state(case)
    ir = INTERNAL[case['ir']] or {}
    site_groups = {}
    for rx, v in ir.items():
        for i in sites(seq, rx):
            if i in res:
                continue
            for g in norm_groups(v):
                site_groups.setdefault(i, []).append(g)
    nvars = [None]
    if not nt:
        for rx, v in term_rule(TERM[case['nt']]):
            if term_applies(seq, rx, 'n'):
                nvars += [g for g in norm_groups(v)]
    cvars = [None]
    if not ct:
        for rx, v in term_rule(TERM[case['ct']]):
            if term_applies(seq, rx, 'c'):
                cvars += [g for g in norm_groups(v)]
    forms = []
    idx = sorted(site_groups)
    for k in range(0, min(max_mods, len(idx)) + 1):
        for chosen in itertools.combinations(idx, k):
            for gs in itertools.product(*[site_groups[i] for i in chosen]):
                r2 = {i: list(v) for i, v in res.items()}
                for i, g in zip(chosen, gs):
                    r2[i] = list(g)
                for nv in nvars:
                    for cv in cvars:
                        forms.append(rend(seq, r2, nv if nv is not None else nt, cv if cv is not None else ct))
    return sorted(forms)


def check(case, ctx):
    import copy
    p = lib.pt()
    seq, res, nt, ct = base_state(case)
    s0 = rend(seq, res, nt, ct)
    overlapping = case['ir'] in OVERLAPPING
    ir = INTERNAL[case['ir']]
    ntr, ctr = TERM[case['nt']], TERM[case['ct']]
    nforms = 0
    if not case['pre'] and case['nt'] == 0 and case['ct'] == 0:
        # rule values given as NUMBERS, the same number once as an int and once as a float in one process (either order):
        # each is written the way it was given
        first = seq[0]
        for a_, b_ in ((1, 1.0), (16.0, 16)):
            for val in (a_, b_):
                want = seq.replace(first, f'{first}[{val}]')
                r = lib.call(p.apply_static_mods, seq, {first: [val]})
                ctx.evals += 1
                if r[0] != 'ok' or r[1] != want:
                    ctx.fail('static-numeric-value', want, r[1], call=['apply_static_mods', seq, {first: [val]}],
                             note='asked after the same number of the other numeric type')
        r = lib.call(p.apply_variable_mods, seq[0], {seq[0]: [[16], [16.0]]}, 1)
        want = sorted([f'{first}[16]', f'{first}[16.0]', first])
        if r[0] != 'ok' or sorted(r[1]) != want:
            ctx.fail('variable-numeric-values', want, r[1], call=['apply_variable_mods', seq[0], {seq[0]: [[16], [16.0]]}, 1])
    # ---- static
    sir, sntr, sctr = static_internal(ir), static_term(ntr), static_term(ctr)
    for mode in ('skip', 'append', 'overwrite'):
        for rt in ('str', 'annotation'):
            st, got = lib.call(p.apply_static_mods, s0, copy.deepcopy(sir), copy.deepcopy(sntr), copy.deepcopy(sctr),
                               mode, rt)
            ctx.evals += 1
            if st != 'ok':
                ctx.fail('static-raises', 'result', got, call=['apply_static_mods', s0, sir, sntr, sctr, mode, rt])
                continue
            gs = got if rt == 'str' else got.serialize()
            st2, ga = lib.call(p.parse, gs)
            if st2 != 'ok' or ga.sequence != seq:
                ctx.fail('static-residues-changed', seq, gs, call=['apply_static_mods', s0, sir, sntr, sctr, mode, rt])
                continue
            if True:  # the static clause is exact for overlapping rule sets too: every rule reaches every matched residue
                exp = rend(*ref_static(case, mode))
                st3, ea = lib.call(p.parse, exp)
                if st3 != 'ok' or not (ga == ea):
                    ctx.fail('static-exact', exp, gs, call=['apply_static_mods', s0, sir, sntr, sctr, mode, rt])
            if mode == 'skip' and rt == 'str':
                st4, again = lib.call(p.apply_static_mods, gs, copy.deepcopy(sir), copy.deepcopy(sntr),
                                      copy.deepcopy(sctr), 'skip', 'str')
                ctx.evals += 1
                if st4 != 'ok' or again != gs:
                    ctx.fail('static-idempotent', gs, again, call=['apply_static_mods twice', s0, sir, sntr, sctr])
    # ---- variable
    for max_mods in range(0, 5):
        for mode in ('skip', 'append', 'overwrite'):
            for rt in ('str', 'annotation'):
                if not case.get('full'):
                    if mode != 'skip' and (rt == 'annotation' or max_mods not in (1, 4)):
                        continue
                    if mode == 'skip' and (max_mods == 3 or (rt == 'annotation' and max_mods != 1)):
                        continue
                st, got = lib.call(p.apply_variable_mods, s0, copy.deepcopy(ir), max_mods, copy.deepcopy(ntr),
                                   copy.deepcopy(ctr), mode, rt)
                ctx.evals += 1
                call = ['apply_variable_mods', s0, ir, max_mods, ntr, ctr, mode, rt]
                if st != 'ok':
                    ctx.fail('variable-raises', 'list', got, call=call)
                    continue
                forms = list(got) if rt == 'str' else [a.serialize() for a in got]
                nforms += len(forms)
                if mode == 'skip':      # exact also for the overlapping rule sets: they offer distinct groups (union per site)
                    exp = ref_variable_skip(case, max_mods)
                    if sorted(forms) != exp:
                        missing = sorted(set(exp) - set(forms))
                        extra = sorted(set(forms) - set(exp))
                        dup = sorted(f for f in set(forms) if forms.count(f) > 1)
                        ctx.fail('variable-exact', exp, sorted(forms), call=call, missing=missing, extra=extra,
                                 duplicated=dup)
                else:
                    if s0 not in forms:
                        ctx.fail('variable-input-form-missing', s0, forms, call=call)
                    if len(forms) != len(set(forms)):
                        ctx.fail('variable-duplicate', None, sorted(f for f in set(forms) if forms.count(f) > 1),
                                 call=call)
                    for f in set(forms):
                        st2, fa = lib.call(p.parse, f)
                        if st2 != 'ok' or fa.sequence != seq:
                            ctx.fail('variable-residues-changed', seq, f, call=call)
    # ---- the same rules given as Mod objects (all members, or every second member) mean the same rules
    for variant in ('all', 'mixed'):
        o_ir, o_ntr, o_ctr = (_objectify(p, x, variant) for x in (ir, ntr, ctr))
        for max_mods in (1, 2):
            a = lib.call(p.apply_variable_mods, s0, copy.deepcopy(ir), max_mods, copy.deepcopy(ntr), copy.deepcopy(ctr))
            b = lib.call(p.apply_variable_mods, s0, o_ir, max_mods, o_ntr, o_ctr)
            ctx.evals += 2
            if a[0] != b[0] or (a[0] == 'ok' and sorted(a[1]) != sorted(b[1])):
                ctx.fail('variable-mod-objects', sorted(a[1]) if a[0] == 'ok' else a[1],
                         sorted(b[1]) if b[0] == 'ok' else b[1],
                         call=['apply_variable_mods', s0, ir, max_mods, ntr, ctr], objects=variant)
        o_s = [_objectify(p, x, variant) for x in (sir, sntr, sctr)]
        a = lib.call(p.apply_static_mods, s0, copy.deepcopy(sir), copy.deepcopy(sntr), copy.deepcopy(sctr))
        b = lib.call(p.apply_static_mods, s0, *o_s)
        ctx.evals += 2
        if a[0] != b[0] or (a[0] == 'ok' and a[1] != b[1]):
            ctx.fail('static-mod-objects', a[1], b[1], call=['apply_static_mods', s0, sir, sntr, sctr], objects=variant)
    ctx.outcome = [s0, case['ir'], case['nt'], case['ct'], nforms]


def _objectify(p, v, variant, _n=None):
    """the rule value with its modification texts replaced by Mod objects (variant 'mixed': every second one)"""
    n = _n if _n is not None else [0]
    if v is None:
        return None
    if isinstance(v, dict):
        return {k: _objectify(p, x, variant, n) for k, x in v.items()}
    if isinstance(v, list):
        return [_objectify(p, x, variant, n) for x in v]
    n[0] += 1
    return p.Mod(v, 1) if (variant == 'all' or n[0] % 2 == 0) else v


def _d14(case, f):
    """N-term + C-term rule both applicable together with internal rules: duplicates / max_mods exceeded."""
    return False


CLASSIFIERS = {}
