"""C15 — chemical and glycan formulas survive a write/parse round trip and add linearly.

Space (b): compositions of <= T terms over a deliberately confusable key alphabet x count alphabet x separator x Hill
order; every element of the bundled table; all ordered pairs of written formulas (additivity); glycan multisets over
prefix-confusable monosaccharide names with an own all-tokenizations enumerator."""
import itertools

from mc import lib, refdata, obo

PROPERTY = 'C15'
RULE = ('full product: ordered selections of <=T distinct keys from {C,Ce,e,H,He,N,n,Na,p,P,D,T,13C,2H,15N,S,Se,Cl,2D,3T,3H} x counts '
        '{-200,-2,-1,0,1,2,12,500,0.5,-1.25,0.0001} (all counts for 1-2 terms, a reduced count set for 3+) x separators '
        "{'',' ','|'} x hill_order; every element of the table with count 2; additivity over all ordered pairs of 60 "
        'written formulas; glycans: all 27 names singly, all ordered pairs and triples over 12 prefix-confusable names x '
        'counts {-5,1,2,20,1.5}; non-trivial = at least two terms')
ASSUMPTIONS = ['counts have at most 4 decimal places (str() of smaller floats uses exponent notation)',
               'glycan round trip is required only when the own tokenizer finds exactly one complete tokenization of the '
               'written string over all names and synonyms', 'mass reference: frozen NIST table']

KEYS = ['C', 'Ce', 'e', 'H', 'He', 'N', 'n', 'Na', 'p', 'P', 'D', 'T', '13C', '2H', '15N', 'S', 'Se', 'Cl', '2D', '3T', '3H']
COUNTS = [-200, -12, -2, -1, 0, 1, 2, 12, 500, 0.5, -1.25, 0.0001, 123.4567, 499.9999]   # -12: 'H2e-12' must not read as an exponent
COUNTS3 = [-2, 0, 1, 12, 0.5]
SEPS = ['', ' ', '|']
GNAMES = ['Hex', 'HexNAc', 'HexN', 'HexS', 'HexNAc(S)', 'a-Hex', 'd-Hex', 'Neu', 'Neu5Ac', 'Pen', 'Acetyl', 'Me',
          'HexA', 'aHex', 'NeuAc', 'Pent', 'dHex', 'Ac']   # synonyms: the same monosaccharide under a second spelling
GCOUNTS = [-5, 0, 1, 2, 20, 1.5]


def describe(tier):
    return {'max_terms': 4 if tier == 'thorough' else 3, 'keys': KEYS, 'counts': COUNTS, 'counts_3plus': COUNTS3,
            'separators': SEPS, 'glycan_names': GNAMES, 'glycan_counts': GCOUNTS}


def shards(tier):
    out = [{'kind': 'chem', 'first': i} for i in range(len(KEYS))]
    out += [{'kind': 'elements'}, {'kind': 'add', 'part': 0}, {'kind': 'add', 'part': 1}, {'kind': 'glycan1'}]
    out += [{'kind': 'glycan', 'first': i} for i in range(len(GNAMES))]
    return out


def gen(shard, tier):
    T = describe(tier)['max_terms']
    if shard['kind'] == 'chem':
        a = shard['first']
        for m in range(1, T + 1):
            for rest in itertools.permutations([i for i in range(len(KEYS)) if i != a], m - 1):
                if m >= 3 and list(rest) != sorted(rest):
                    continue  # order matters for tokenisation only between neighbours: all orders up to 2 terms
                cs = COUNTS if m <= 2 else COUNTS3
                if m == 4:
                    cs = [-2, 1, 0.5]
                for counts in itertools.product(range(len(cs)), repeat=m):
                    yield {'kind': 'chem', 'keys': [a] + list(rest), 'counts': [cs[i] for i in counts]}, m, m >= 2
    elif shard['kind'] == 'elements':
        yield {'kind': 'elements'}, 1, True
    elif shard['kind'] == 'add':
        yield {'kind': 'add', 'part': shard['part']}, 2, True
    elif shard['kind'] == 'glycan1':
        yield {'kind': 'glycan1'}, 1, True
    else:
        a = shard['first']
        for m in (1, 2, 3):
            for rest in itertools.permutations([i for i in range(len(GNAMES)) if i != a], m - 1):
                if m == 3 and tier != 'thorough' and (rest[0] + rest[1]) % 5 != 0:
                    continue
                gc = GCOUNTS if m <= 2 else [0, 1, 2, 1.5]
                for counts in itertools.product(gc, repeat=m):
                    yield {'kind': 'glycan', 'names': [a] + list(rest), 'counts': list(counts)}, m, m >= 2


def nz(c):
    return {k: v for k, v in c.items() if v != 0}


ALIAS = {'2D': 'D', '3T': 'T'}      # the bundled table lists deuterium and tritium under these keys as well


def ref_mass(comp, mono=True):
    return sum(refdata.atom_mass(ALIAS.get(k, k), mono) * v for k, v in comp.items())


_mono_cache = {}


def mono_db():
    if 'm' not in _mono_cache:
        ents = obo.monosaccharides()
        names = {}
        for e in ents:
            comp = obo.simple_formula(e['formula'])
            names[e['name']] = (e['name'], comp, e['mono'])
            for sname in e['synonyms']:
                names[sname] = (e['name'], comp, e['mono'])
        _mono_cache['m'] = (ents, names)
    return _mono_cache['m']


def tokenizations(s, names, limit=3):
    """all complete tokenizations of a written glycan string into (name, count-text) pairs"""
    out = []

    def rec(pos, acc):
        if len(out) >= limit:
            return
        if pos == len(s):
            out.append(list(acc))
            return
        for nme in names:
            if s.startswith(nme, pos):
                q = pos + len(nme)
                r = q
                while r < len(s) and (s[r].isdigit() or s[r] in '+-.'):
                    r += 1
                # the count is the maximal run (as the library reads it) -- but a shorter run is a different reading
                for end in {r}:
                    acc.append((nme, s[q:end]))
                    rec(end, acc)
                    acc.pop()
    rec(0, [])
    return out


def check(case, ctx):
    p = lib.pt()
    kind = case['kind']
    if kind == 'chem':
        keys = [KEYS[i] for i in case['keys']]
        comp = dict(zip(keys, case['counts']))
        exp = nz(comp)
        for sep in SEPS:
            for hill in (False, True):
                if sep != '' and not exp:
                    continue
                st, w = lib.call(p.write_chem_formula, dict(comp), sep, hill)
                ctx.evals += 1
                call = ['write_chem_formula', comp, sep, hill]
                if st != 'ok':
                    ctx.fail('write-raises', 'string', w, call=call)
                    continue
                st, back = lib.call(p.parse_chem_formula, w, sep)
                ctx.evals += 1
                if st != 'ok':
                    ctx.fail('parse-of-written-raises', exp, back, call=call, written=w)
                    continue
                if back != exp or any(type(back[k]) is not type(exp[k]) and back[k] != exp[k] for k in exp if k in back):
                    ctx.fail('round-trip', exp, back, call=call, written=w)
                    continue
                # the parsed composition belongs to the caller: editing it must not change a later parse
                back['C'] = back.get('C', 0) + 1000
                back['Xx'] = 1
                st, again = lib.call(p.parse_chem_formula, w, sep)
                ctx.evals += 1
                if st != 'ok' or nz(again) != exp:
                    ctx.fail('parse-after-editing-previous-result', exp, again, call=call, written=w)
                    continue
                st, m = lib.call(p.chem_mass, w, True, None, sep)
                ctx.evals += 1
                ref = ref_mass(exp)
                if st != 'ok' or not lib.close(m, ref, 1e-6 + 1e-9 * sum(abs(v) for v in exp.values())):
                    ctx.fail('mass-of-written', ref, m, call=call, written=w)
                # the same string asked for its average mass, then for its monoisotopic mass again (the mass of the string
                # is the mass of the composition in either mode, whichever was asked first)
                if st == 'ok':
                    sta, ma = lib.call(p.chem_mass, w, False, None, sep)
                    stb, mb = lib.call(p.chem_mass, dict(exp), False)
                    stc, mc = lib.call(p.chem_mass, w, True, None, sep)
                    ctx.evals += 3
                    if sta != stb or (sta == 'ok' and not lib.close(ma, mb, 1e-6 + 1e-9 * sum(abs(v) for v in exp.values()))):
                        ctx.fail('average-mass-of-written', mb, ma, call=call, written=w)
                    if stc != 'ok' or mc != m:
                        ctx.fail('mass-of-written-after-average', m, mc, call=call, written=w)
                if hill and sep == '' and st == 'ok':
                    given = dict(comp)
                    for mono in (True, False):      # the composition is the caller's: asking for its mass leaves it alone
                        lib.call(p.chem_mass, given, mono)
                        if given != comp:
                            ctx.fail('chem_mass-changes-its-argument', comp, given, call=['chem_mass', comp, mono])
                            break
                    st2, m2 = lib.call(p.chem_mass, dict(comp))
                    if st2 != 'ok' or not lib.close(m2, ref, 1e-6 + 1e-9 * sum(abs(v) for v in exp.values())):
                        ctx.fail('mass-of-composition', ref, m2, call=['chem_mass', comp])
        ctx.outcome = [keys, case['counts']]
    elif kind == 'elements':
        n = 0
        for el in refdata.MONO:
            for key in [el] + [f'{a}{el}' for a, _m, _ab in refdata.ISOTOPES.get(el, [])[:2]]:
                comp = {key: 2}
                for sep in SEPS:
                    st, w = lib.call(p.write_chem_formula, dict(comp), sep)
                    st2, back = lib.call(p.parse_chem_formula, w, sep) if st == 'ok' else ('err', None)
                    ctx.evals += 2
                    n += 1
                    if st != 'ok' or st2 != 'ok' or back != comp:
                        ctx.fail('element-round-trip', comp, back if st == 'ok' else w, written=w if st == 'ok' else None,
                                 sep=sep)
                        continue
                    st3, m = lib.call(p.chem_mass, w, True, None, sep)
                    if st3 != 'ok' or not lib.close(m, ref_mass(comp), 1e-6):
                        ctx.fail('element-mass', ref_mass(comp), m, written=w)
        ctx.sub_states = n
        ctx.sub_nontrivial = n
        ctx.outcome = n
    elif kind == 'add':
        # additivity over all ordered pairs of written formulas (sep '' only: plain concatenation)
        comps = []
        for i, a in enumerate(KEYS):
            comps.append({a: [1, 2, -2, 12, 0.5][i % 5]})
        for a, b in itertools.combinations(KEYS, 2):
            if (KEYS.index(a) + KEYS.index(b)) % 4 == 0:
                comps.append({a: 2, b: -1})
        comps += [{'C': 6, 'H': 12, 'O': 6}, {'13C': 2, 'C': -2}, {'D': 3, 'H': -3}, {'e': -1}, {'p': 1, 'n': 1}]
        written = []
        for c in comps:
            st, w = lib.call(p.write_chem_formula, dict(c))
            st2, pc = lib.call(p.parse_chem_formula, w) if st == 'ok' else ('err', None)
            if st == 'ok' and st2 == 'ok':
                written.append((w, pc))
        n = 0
        for i, (w1, c1) in enumerate(written):
            if i % 2 != case['part']:
                continue
            for (w2, c2) in written:
                n += 1
                exp = dict(c1)
                for k, v in c2.items():
                    exp[k] = exp.get(k, 0) + v
                st, got = lib.call(p.parse_chem_formula, w1 + w2)
                ctx.evals += 1
                if st != 'ok' or nz(got) != nz(exp):
                    ctx.fail('additivity', nz(exp), got, formulas=[w1, w2])
                    continue
                st, m = lib.call(p.chem_mass, w1 + w2)
                if st != 'ok' or not lib.close(m, ref_mass(nz(exp)), 1e-6):
                    ctx.fail('additivity-mass', ref_mass(nz(exp)), m, formulas=[w1, w2])
                # the separated forms concatenate with their separator and add up the same way
                if (i + n) % 3 == 0:
                    for sep in (' ', '|'):
                        s1, s2 = lib.call(p.write_chem_formula, dict(c1), sep), lib.call(p.write_chem_formula, dict(c2), sep)
                        if s1[0] != 'ok' or s2[0] != 'ok' or not s1[1] or not s2[1]:
                            continue
                        st, got = lib.call(p.parse_chem_formula, s1[1] + sep + s2[1], sep)
                        ctx.evals += 1
                        if st != 'ok' or nz(got) != nz(exp):
                            ctx.fail('additivity-separated', nz(exp), got, formulas=[s1[1], s2[1]], sep=sep)
        ctx.sub_states = n
        ctx.sub_nontrivial = n
        ctx.outcome = n
    elif kind == 'glycan1':
        ents, names = mono_db()
        n = 0
        for e in ents:
            comp = obo.simple_formula(e['formula'])
            for nme in [e['name']] + e['synonyms']:
                for cnt in (1, 3):
                    n += 1
                    s = f'{nme}{cnt}'
                    st, gc = lib.call(p.glycan_comp, s)
                    st2, gm = lib.call(p.glycan_mass, s)
                    ctx.evals += 2
                    expc = {k: v * cnt for k, v in comp.items()}
                    if st != 'ok' or nz(gc) != nz(expc):
                        ctx.fail('glycan-comp', expc, gc, formula=s)
                    if st2 != 'ok' or not lib.close(gm, ref_mass(expc), 1e-3):
                        ctx.fail('glycan-mass', ref_mass(expc), gm, formula=s)
                    # average mass: the same count-weighted sum, identically for names and synonyms, strings and dicts
                    for arg in (s, {nme: cnt}):
                        st3, ga = lib.call(p.glycan_mass, arg, False)
                        ctx.evals += 1
                        if st3 != 'ok' or not lib.close(ga, ref_mass(expc, False), 2e-3 * cnt + 1e-5 * abs(ref_mass(expc, False))):
                            ctx.fail('glycan-mass-average', ref_mass(expc, False), ga, formula=arg)
                st, d1 = lib.call(p.glycan_comp, {nme: 2})
                if st != 'ok' or nz(d1) != nz({k: v * 2 for k, v in comp.items()}):
                    ctx.fail('glycan-comp-dict', {k: v * 2 for k, v in comp.items()}, d1, name=nme)
        ctx.sub_states = n
        ctx.sub_nontrivial = n
        ctx.outcome = n
    else:
        ents, names = mono_db()
        gl = {GNAMES[i]: c for i, c in zip(case['names'], case['counts'])}
        st, w = lib.call(p.write_glycan_formula, dict(gl))
        ctx.evals += 1
        if st != 'ok':
            ctx.fail('glycan-write-raises', 'string', w, glycan=gl)
            return
        toks = tokenizations(w, sorted(names, key=len, reverse=True))
        expc = {}
        for nme, cnt in gl.items():
            for k, v in names[nme][1].items():
                expc[k] = expc.get(k, 0) + v * cnt
        if len(toks) == 1:
            st, back = lib.call(p.parse_glycan_formula, w)
            ctx.evals += 1
            if st != 'ok' or nz(back) != nz(gl):
                ctx.fail('glycan-round-trip', gl, back, written=w)
            else:
                st, gc = lib.call(p.glycan_comp, w)
                st2, gm = lib.call(p.glycan_mass, w)
                ctx.evals += 2
                if st != 'ok' or nz(gc) != nz(expc):
                    ctx.fail('glycan-comp', nz(expc), gc, written=w)
                if st2 != 'ok' or not lib.close(gm, ref_mass(nz(expc)), 1e-3 * max(1, sum(abs(c) for c in gl.values()))):
                    ctx.fail('glycan-mass', ref_mass(nz(expc)), gm, written=w)
        for mono in (True, False):
            st, gm = lib.call(p.glycan_mass, dict(gl), mono)
            ctx.evals += 1
            ref = ref_mass(nz(expc), mono)
            if st != 'ok' or not lib.close(gm, ref, (1e-3 if mono else 2e-3) * max(1, sum(abs(c) for c in gl.values())) + 1e-5 * abs(ref)):
                ctx.fail('glycan-mass-dict', ref, gm, glycan=gl, monoisotopic=mono)
        st, gc = lib.call(p.glycan_comp, dict(gl))
        ctx.evals += 1
        if st != 'ok' or nz(gc) != nz(expc):
            ctx.fail('glycan-comp-dict', nz(expc), gc, glycan=gl)
        for sep in (' ', '|'):
            st, ws = lib.call(p.write_glycan_formula, dict(gl), sep)
            st2, back = lib.call(p.parse_glycan_formula, ws, sep) if st == 'ok' else ('err', None)
            ctx.evals += 2
            if st != 'ok' or st2 != 'ok' or nz(back) != nz(gl):
                ctx.fail('glycan-round-trip-sep', gl, back, written=ws if st == 'ok' else None, sep=sep)
        ctx.outcome = [w, len(toks)]


CLASSIFIERS = {}
