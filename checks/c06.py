"""C06 — digestion returns exactly the peptides the cleavage rules define.

Three exhaustive layers (digest = sites o build_spans o render):
  sites : every protein string up to length L over a 9-letter alphabet x 19 named proteases + 8 user regexes
  spans : every site subset of {0..n} x missed_cleavages x semi x min_len x max_len, all span builders
  e2e   : every protein up to length Le x rule sets of 1..3 rules x mc x semi x bounds x complete x return types
Oracle: hand-written predicate per protease / stdlib-re scan; set comprehension for spans."""
import itertools
import re as stdre

from mc import lib

CASE_TIMEOUT_S = 600      # wall-clock horizon per state (states of this check bundle many sub-states; generous for loaded machines)
PROPERTY = 'C06'
RULE = ('full product spaces: (sites) all protein strings of length 0..L over {K,R,P,D,E,A,F,L,G} x 27 rules; (spans) all '
        'site subsets of {0..n}, n<=N x mc 0..4 x semi x min_len x max_len in {None,1..n+1} for every span builder; '
        '(e2e) all proteins of length 0..Le over {K,R,P,D,E,A} x 1-3 rules of 11 x mc x semi x min/max x complete x 5 '
        'return types x sort; (long) every cyclic window of length 12/30/60 (quick) or 9..60 (thorough) of a fixed 75-letter '
        'word over 20 residues: sites for all 32 rules, digests for 12 rule sets x mc {0,1,2,4} x semi x 4 length bounds, '
        'non-specific, sequential; non-trivial = at least one cleavage site (sites/e2e) or a non-empty site subset (spans)')
ASSUMPTIONS = ['named proteases are specified by the hand-written predicates in NAMED (one per documented rule)',
               'user regexes: site = i for a zero-width match at i, i+1 for a consuming match starting at i (stdlib re)',
               'spans are compared as sets of (start,end,missed) triples; duplicates in generator output are tolerated',
               'sequential-vs-simultaneous clause is evaluated with named proteases and no length bounds']

SITE_ALPHA = 'KRPDEAFLG'
E2E_ALPHA = 'KRPDEA'


def _after(chars):
    return lambda s, i: i >= 1 and s[i - 1] in chars


NAMED = {
    'arg-c': _after('R'),
    'asp-n': lambda s, i: i < len(s) and s[i] == 'D',
    'chymotrypsin': lambda s, i: i >= 1 and s[i - 1] in 'FWYL' and not (i < len(s) and s[i] == 'P'),
    'chymotrypsin/P': _after('FWYL'),
    'promega-chymotrypsin-high-specificity': _after('YFW'),
    'promega-chymotrypsin-low-specificity': _after('YFWLM'),
    'glu-c': _after('E'),
    'lys-c': _after('K'),
    'lys-n': lambda s, i: i < len(s) and s[i] == 'K',
    'proteinase k': _after('AEFILTVWY'),
    'trypsin': lambda s, i: i >= 1 and s[i - 1] in 'KR' and i < len(s) and s[i] != 'P',
    'trypsin/P': _after('KR'),
    'proalanase': _after('PA'),
    'elastase': _after('AGSVLI'),
    'pepsin': _after('FLWY'),
    'thermolysin': _after('LFIAVM'),
    'proalanase-low-specificity': _after('PASG'),
    'non-specific': lambda s, i: True,
    'no-cleave': lambda s, i: False,
}
USER_REGEX = ['([KR])', 'K', '(?<=K)', '(?=D)', '(?<=[KR])(?!P)', 'PP', '()', '_', 'K(?=D)', '[KR]P?',
              '([KR])|(?=D)', '(?=D)|([KR])', 'K|(?<=D)']   # one regex mixing consuming and zero-width alternatives


def ref_sites(s, rule):
    n = len(s)
    if rule in NAMED:
        return sorted(i for i in range(n + 1) if NAMED[rule](s, i))
    pat = stdre.compile(rule)
    out = []
    for i in range(n + 1):
        m = pat.match(s, i)
        if m is not None:
            out.append(i if m.end() == m.start() else i + 1)
    return sorted(set(out))


def ref_enzymatic(n, sites, mc, min_len, max_len):
    pts = sorted(set(sites) | {0, n})
    lo = 1 if min_len is None else min_len
    hi = n if max_len is None else max_len
    out = set()
    for a, b in itertools.combinations(pts, 2):
        inside = sum(1 for x in pts if a < x < b)
        if inside <= mc and lo <= b - a <= hi:
            out.add((a, b, inside))
    return out


def ref_spans(n, sites, mc, min_len, max_len, semi):
    """The statement's definition (enzymatic spans, semi extension, inclusive length filter)."""
    pts = sorted(set(sites) | {0, n})
    lo = 1 if min_len is None else min_len
    hi = n if max_len is None else max_len
    E = ref_enzymatic(n, sites, mc, 1, n)
    allsp = set(E)
    if semi:
        for (a, b, _k) in E:
            for c in range(a + 1, b):
                allsp.add((a, c, sum(1 for x in pts if a < x < c)))
                allsp.add((c, b, sum(1 for x in pts if c < x < b)))
    return {(a, b, k) for (a, b, k) in allsp if lo <= b - a <= hi}


def ref_nonspecific(a0, b0, min_len, max_len):
    """every proper sub-span of (a0,b0) within the bounds, value 0"""
    n = b0 - a0
    lo = 1 if min_len is None else min_len
    hi = n if max_len is None else max_len
    return {(a, b, 0) for a in range(a0, b0) for b in range(a + 1, b0 + 1)
            if lo <= b - a <= hi and (b - a) < n}


def describe(tier):
    th = tier == 'thorough'
    return {'sites_len': 6 if th else 5, 'spans_n': 9 if th else 7, 'e2e_len': 5 if th else 4,
            'e2e_max_len_per_rule_count': RMAX[tier],
            'mc_spans': [0, 4], 'mc_e2e': [0, 3] if th else [0, 2], 'user_regexes': USER_REGEX,
            'e2e_rules': E2E_RULES, 'long_word': LONG_WORD, 'long_window_lengths': LONG_LENS[tier]}


RMAX = {'quick': {1: 4, 2: 3, 3: 2}, 'thorough': {1: 5, 2: 4, 3: 4}}
E2E_RULES = ['trypsin', 'trypsin/P', 'lys-c', 'lys-n', 'asp-n', 'glu-c', 'arg-c', 'proalanase', '([KR])',
             'non-specific', 'no-cleave']


# upper part of the quantifier (proteins up to length 60 over all residues): every cyclic window of the given lengths of a
# fixed 75-letter word (start of serum albumin + a tail with KP / RP / DE / GW / YN neighbours)
LONG_WORD = 'MKWVTFISLLFLFSSAYSRGVFRRDAHKSEVAHRFKDLGEENFKALVLIAFAQYLQQCPFEDHVK' + 'KPRPDEGWYN'
LONG_LENS = {'quick': [12, 30, 60], 'thorough': [9, 12, 20, 30, 45, 60]}
LONG_RULES = ['trypsin', 'trypsin/P', 'lys-c', 'lys-n', 'asp-n', 'glu-c', 'chymotrypsin', 'proalanase', '([KR])', '(?=D)']


def shards(tier):
    d = describe(tier)
    out = [{'kind': 'long', 'n': n, 'lo': lo} for n in LONG_LENS[tier] for lo in range(0, len(LONG_WORD), 5)]
    for n in range(0, d['sites_len'] + 1):
        for pre in (itertools.product(SITE_ALPHA, repeat=min(n, 2))):
            out.append({'kind': 'sites', 'n': n, 'pre': ''.join(pre)})
    for n in range(0, d['spans_n'] + 1):
        for lowbits in range(1 << min(n + 1, 3)):
            out.append({'kind': 'spans', 'n': n, 'low': lowbits})
    for n in range(0, d['e2e_len'] + 1):
        for pre in itertools.product(E2E_ALPHA, repeat=min(n, 2)):
            out.append({'kind': 'e2e', 'n': n, 'pre': ''.join(pre)})
            if n <= 4:
                out.append({'kind': 'seq', 'n': n, 'pre': ''.join(pre)})
    return out


def gen(shard, tier):
    d = describe(tier)
    n = shard['n']
    if shard['kind'] == 'long':
        for st in range(shard['lo'], min(shard['lo'] + 5, len(LONG_WORD))):
            yield {'kind': 'long', 's': (LONG_WORD + LONG_WORD)[st:st + n]}, n, True
        return
    if shard['kind'] == 'sites':
        for t in itertools.product(SITE_ALPHA, repeat=n - len(shard['pre'])):
            s = shard['pre'] + ''.join(t)
            yield {'kind': 'sites', 's': s}, n, any(c in 'KRDEFLPAG' for c in s)
    elif shard['kind'] == 'spans':
        k = min(n + 1, 3)
        for hi in range(1 << (n + 1 - k)):
            bits = shard['low'] | (hi << k)
            sites = [i for i in range(n + 1) if bits >> i & 1]
            yield {'kind': 'spans', 'n': n, 'sites': sites}, len(sites), len(sites) > 0
    elif shard['kind'] == 'e2e':
        mcs = list(range(d['mc_e2e'][0], d['mc_e2e'][1] + 1))
        bnds = [[a, b] for a in (None, 1, 2, 3) for b in (None, 1, 2, 3)] if tier == 'thorough' else \
            [[None, None], [2, None], [None, 3], [2, 3], [1, 1], [3, 2]]
        for t in itertools.product(E2E_ALPHA, repeat=n - len(shard['pre'])):
            s = shard['pre'] + ''.join(t)
            for r in range(1, 4):
                if n > RMAX[tier][r]:
                    continue
                for rules in itertools.combinations(E2E_RULES, r):
                    if r == 3 and ('no-cleave' in rules):
                        continue
                    yield {'kind': 'e2e', 's': s, 'rules': list(rules), 'mcs': mcs, 'bounds': bnds}, n + r, True
    else:
        named = [r for r in E2E_RULES if r in NAMED and r not in ('non-specific', 'no-cleave')]
        for t in itertools.product(E2E_ALPHA, repeat=n - len(shard['pre'])):
            s = shard['pre'] + ''.join(t)
            for rules in itertools.permutations(named, 2):
                yield {'kind': 'seq', 's': s, 'rules': list(rules)}, n + 2, True


def _spanset(ctx, fn, *a, **k):
    st, got = lib.call(lambda: list(fn(*a, **k)))
    ctx.evals += 1
    if st != 'ok':
        return None, got
    return got, None


def _long(case, ctx, p):
    s = case['s']
    n = len(s)
    tot = 0
    for rule in list(NAMED) + USER_REGEX:
        exp = ref_sites(s, rule)
        got, err = _spanset(ctx, p.get_cleavage_sites, s, rule)
        if err is not None or sorted(set(got)) != exp:
            ctx.fail('sites', exp, err if err is not None else sorted(got), call=['get_cleavage_sites', s, rule])
    rule_sets = [[r] for r in LONG_RULES] + [['trypsin', 'asp-n'], ['lys-c', 'glu-c', 'chymotrypsin']]
    for rules in rule_sets:
        sites = sorted(set(x for r in rules for x in ref_sites(s, r)))
        for mc in (0, 1, 2, 4):
            for semi in ((False, True) if n <= 30 else (False,)):
                for mn, mx in ((None, None), (7, 30), (None, 12), (6, None)):
                    exp = ref_spans(n, sites, mc, mn, mx, semi)
                    tot += len(exp)
                    got, err = _spanset(ctx, p.digest, s, list(rules), mc, semi, mn, mx, True, 'span', True)
                    if err is not None or set(got) != exp:
                        ctx.fail('digest-spans', sorted(exp)[:40], err if err is not None else sorted(got)[:40],
                                 call=['digest', s, rules, mc, semi, mn, mx, True], sites=sites)
                        continue
                    if mc == 1 and not semi and (mn, mx) == (7, 30):
                        g2, err = _spanset(ctx, p.digest, s, list(rules), mc, semi, mn, mx, True, 'str', True)
                        if err is not None or g2 != [s[a:b] for a, b, _ in got]:
                            ctx.fail('digest-return-type', [s[a:b] for a, b, _ in got], err if err is not None else g2,
                                     call=['digest', s, rules, mc, semi, mn, mx, True, 'str'])
    # non-specific rule, and a sequential digest with two and three complete stages
    for mn, mx in ((None, None), (7, 30)):
        exp = ref_nonspecific(0, n, mn, mx)
        got, err = _spanset(ctx, p.digest, s, 'non-specific', 0, False, mn, mx, True, 'span', True)
        if err is not None or set(got) != exp:
            ctx.fail('digest-spans', len(exp), err if err is not None else len(got), call=['digest', s, 'non-specific', mn, mx])
    for rules in (['trypsin', 'asp-n'], ['glu-c', 'lys-c', 'chymotrypsin']):
        sites = sorted(set(x for r in rules for x in ref_sites(s, r)))
        sim = {(a, b) for a, b, _ in ref_spans(n, sites, 0, None, None, False)}
        cfgs = [p.EnzymeConfig([r], 0, False, True) for r in rules]
        for lo, hi in ((None, None), (3, 9)):
            exp = {(a, b) for a, b in sim if (lo is None or b - a >= lo) and (hi is None or b - a <= hi)}
            got, err = _spanset(ctx, p.sequential_digest, s, cfgs, lo, hi, 'span')
            if err is not None or {(a, b) for a, b, _ in got} != exp:
                ctx.fail('sequential-bounds' if lo else 'sequential-complete', sorted(exp), err if err is not None else sorted(got),
                         call=['sequential_digest', s, rules, lo, hi])
    ctx.outcome = [s, tot]


def check(case, ctx):
    p = lib.pt()
    kind = case['kind']
    if kind == 'long':
        return _long(case, ctx, p)
    if kind == 'sites':
        s = case['s']
        tot = 0
        for rule in list(NAMED) + USER_REGEX:
            exp = ref_sites(s, rule)
            tot += len(exp)
            got, err = _spanset(ctx, p.get_cleavage_sites, s, rule)
            if err is not None or sorted(set(got)) != exp:
                ctx.fail('sites', exp, err if err is not None else sorted(got), call=['get_cleavage_sites', s, rule])
        ctx.outcome = [s, tot]
    elif kind == 'spans':
        n, sites = case['n'], case['sites']
        bounds = [None] + list(range(1, n + 2))
        nout = 0
        for mc in range(0, 5):
            for mn in bounds:
                for mx in bounds:
                    exp = ref_enzymatic(n, sites, mc, mn, mx)
                    got, err = _spanset(ctx, p.build_enzymatic_spans, n, list(sites), mc, mn, mx)
                    if err is not None or set(got) != exp:
                        ctx.fail('build_enzymatic_spans', sorted(exp), err if err is not None else sorted(got),
                                 call=[n, sites, mc, mn, mx])
                    for semi in (False, True):
                        exp = ref_spans(n, sites, mc, mn, mx, semi)
                        got, err = _spanset(ctx, p.build_spans, n, list(sites), mc, mn, mx, semi)
                        nout += len(exp)
                        if err is not None or set(got) != exp:
                            ctx.fail('build_spans', sorted(exp), err if err is not None else sorted(got),
                                     call=[n, sites, mc, mn, mx, semi],
                                     nonspecific=sorted(ref_nonspecific(0, n, mn, mx)))
        # single-span builders on the span (a, n) for the first site a (or 0)
        a0 = sites[0] if sites and sites[0] < n else 0
        span = (a0, n, 7)
        ln = n - a0
        for mn in bounds:
            for mx in bounds:
                lo = 1 if mn is None else mn
                hi = ln if mx is None else mx
                exp = {(a0, c, 7) for c in range(a0 + 1, n) if lo <= c - a0 <= hi}
                got, err = _spanset(ctx, p.build_left_semi_spans, span, mn, mx)
                if err is not None or set(got) != exp or len(got) != len(exp):
                    ctx.fail('build_left_semi_spans', sorted(exp), err if err is not None else got, call=[span, mn, mx])
                exp = {(c, n, 7) for c in range(a0 + 1, n) if lo <= n - c <= hi}
                got, err = _spanset(ctx, p.build_right_semi_spans, span, mn, mx)
                if err is not None or set(got) != exp or len(got) != len(exp):
                    ctx.fail('build_right_semi_spans', sorted(exp), err if err is not None else got, call=[span, mn, mx])
                exp = ref_nonspecific(a0, n, mn, mx)
                got, err = _spanset(ctx, p.build_non_enzymatic_spans, span, mn, mx)
                if err is not None or set(got) != exp or len(got) != len(exp):
                    ctx.fail('build_non_enzymatic_spans', sorted(exp), err if err is not None else got,
                             call=[span, mn, mx])
        ctx.outcome = [n, sites, nout]
    elif kind == 'e2e':
        s, rules = case['s'], case['rules']
        n = len(s)
        sites = sorted(set(x for r in rules for x in ref_sites(s, r)))
        nonspec = 'non-specific' in rules
        pairs = case['bounds']
        nout = 0
        for mc in case['mcs']:
            for semi in (False, True):
                for mn, mx in pairs:
                    mn, mx = mn, mx
                    if True:
                        if nonspec:
                            exp = ref_nonspecific(0, n, mn, mx)
                        else:
                            exp = ref_spans(n, sites, mc, mn, mx, semi)
                        nout += len(exp)
                        for complete in (True, False):
                            e2 = set(exp) | ({(0, n, 0)} if not complete else set())
                            got, err = _spanset(ctx, p.digest, s, list(rules), mc, semi, mn, mx, complete, 'span', True)
                            if err is not None or set(got) != e2:
                                ctx.fail('digest-spans', sorted(e2), err if err is not None else sorted(got),
                                         call=['digest', s, rules, mc, semi, mn, mx, complete], sites=sites,
                                         nonspecific=sorted(ref_nonspecific(0, n, mn, mx) |
                                                            ({(0, n, 0)} if not complete else set())))
                                continue
                            if (mn, mx) in ((None, None), (2, 3)):
                                base = got
                                for rt in ('str', 'annotation', 'str-span', 'annotation-span'):
                                    g2, err = _spanset(ctx, p.digest, s, list(rules), mc, semi, mn, mx, complete, rt, True)
                                    if err is not None:
                                        ctx.fail('digest-return-type', rt, err, call=['digest', s, rules, mc, semi, mn, mx])
                                        continue
                                    if rt == 'str':
                                        proj = [s[a:b] for a, b, _ in base]
                                    elif rt == 'annotation':
                                        proj = [s[a:b] for a, b, _ in base]
                                        g2 = [x.serialize() for x in g2]
                                    elif rt == 'str-span':
                                        proj = [(s[a:b], (a, b, k)) for a, b, k in base]
                                        g2 = [(x, tuple(y)) for x, y in g2]
                                    else:
                                        proj = [(s[a:b], (a, b, k)) for a, b, k in base]
                                        g2 = [(x.serialize(), tuple(y)) for x, y in g2]
                                    if g2 != proj:
                                        ctx.fail('digest-return-type', proj, g2,
                                                 call=['digest', s, rules, mc, semi, mn, mx, complete, rt])
                                g3, err = _spanset(ctx, p.digest, s, list(rules), mc, semi, mn, mx, complete, 'span', False)
                                if err is not None or set(g3) != e2:
                                    ctx.fail('digest-unsorted', sorted(e2), err if err is not None else sorted(g3),
                                             call=['digest', s, rules, mc, semi, mn, mx, complete, 'span', False])
                                cfg = p.EnzymeConfig(list(rules), mc, semi, complete)
                                g4, err = _spanset(ctx, p.digest_from_config, s, cfg, mn, mx, 'span', True)
                                if err is not None or g4 != got:
                                    ctx.fail('digest_from_config', got, err if err is not None else g4,
                                             call=['digest_from_config', s, rules, mc, semi, complete, mn, mx])
        ctx.outcome = [s, rules, nout]
    else:
        s, rules = case['s'], case['rules']
        n = len(s)
        sites = sorted(set(x for r in rules for x in ref_sites(s, r)))
        sim = {(a, b) for a, b, _ in ref_spans(n, sites, 0, None, None, False)}
        cfgs = [p.EnzymeConfig([r], 0, False, True) for r in rules]
        got, err = _spanset(ctx, p.sequential_digest, s, cfgs, None, None, 'span')
        if err is not None or {(a, b) for a, b, _ in got} != sim:
            ctx.fail('sequential-complete', sorted(sim), err if err is not None else sorted(got),
                     call=['sequential_digest', s, rules])
        g2, err = _spanset(ctx, p.sequential_digest, s, cfgs, None, None, 'str')
        if err is not None or (got is not None and g2 != [s[a:b] for a, b, _ in got]):
            ctx.fail('sequential-str', None, err if err is not None else g2, call=['sequential_digest', s, rules, 'str'])
        # partial first stage: the undigested protein is additionally handed to stage 2
        cfgs = [p.EnzymeConfig([rules[0]], 0, False, False), p.EnzymeConfig([rules[1]], 0, False, True)]
        s1 = ref_sites(s, rules[0])
        s2 = ref_sites(s, rules[1])
        exp = set(sim)
        exp |= {(a, b) for a, b, _ in ref_spans(n, s2, 0, None, None, False)}
        got, err = _spanset(ctx, p.sequential_digest, s, cfgs, None, None, 'span')
        if err is not None or {(a, b) for a, b, _ in got} != exp:
            ctx.fail('sequential-partial', sorted(exp), err if err is not None else sorted(got),
                     call=['sequential_digest-partial-first', s, rules])
        cfgs = [p.EnzymeConfig([rules[0]], 0, False, True), p.EnzymeConfig([rules[1]], 0, False, False)]
        exp = set(sim) | {(a, b) for a, b, _ in ref_spans(n, s1, 0, None, None, False)}
        got, err = _spanset(ctx, p.sequential_digest, s, cfgs, None, None, 'span')
        if err is not None or {(a, b) for a, b, _ in got} != exp:
            ctx.fail('sequential-partial', sorted(exp), err if err is not None else sorted(got),
                     call=['sequential_digest-partial-second', s, rules])
        # length bounds on the complete sequential digest (inclusive, as in the simultaneous digest)
        cfgs = [p.EnzymeConfig([r], 0, False, True) for r in rules]
        for lo, hi in ((2, None), (None, 2), (2, 3), (1, 1)):
            exp = {(a, b) for a, b in sim if (lo is None or b - a >= lo) and (hi is None or b - a <= hi)}
            got, err = _spanset(ctx, p.sequential_digest, s, cfgs, lo, hi, 'span')
            if err is not None or {(a, b) for a, b, _ in got} != exp:
                ctx.fail('sequential-bounds', sorted(exp), err if err is not None else sorted(got),
                         call=['sequential_digest', s, rules, lo, hi])
        # three complete stages = the simultaneous digest with all three rules
        if n <= 3:
            for third in ('glu-c', 'asp-n', 'proalanase'):
                if third in rules:
                    continue
                r3 = rules + [third]
                sites3 = sorted(set(x for r in r3 for x in ref_sites(s, r)))
                sim3 = {(a, b) for a, b, _ in ref_spans(n, sites3, 0, None, None, False)}
                cfgs3 = [p.EnzymeConfig([r], 0, False, True) for r in r3]
                got, err = _spanset(ctx, p.sequential_digest, s, cfgs3, None, None, 'span')
                if err is not None or {(a, b) for a, b, _ in got} != sim3:
                    ctx.fail('sequential-complete', sorted(sim3), err if err is not None else sorted(got),
                             call=['sequential_digest', s, r3])
                for lo, hi in ((None, 1), (None, 2), (2, 2)):
                    exp = {(a, b) for a, b in sim3 if (lo is None or b - a >= lo) and (hi is None or b - a <= hi)}
                    got, err = _spanset(ctx, p.sequential_digest, s, cfgs3, lo, hi, 'span')
                    if err is not None or {(a, b) for a, b, _ in got} != exp:
                        ctx.fail('sequential-bounds', sorted(exp), err if err is not None else sorted(got),
                                 call=['sequential_digest', s, r3, lo, hi])
        ctx.outcome = [s, rules, len(sim)]


# ---- known findings ---------------------------------------------------------------------------------------------
def _d10(case, f):
    """every-position-is-a-site shortcut: the site set covers 0..n although the rule set is not the non-specific rule;
    the library then returns exactly the non-specific enumeration."""
    if f['clause'] == 'build_spans' and case['kind'] == 'spans':
        n, sites = case['n'], case['sites']
        return sorted(set(sites)) == list(range(n + 1)) and \
            [list(x) for x in f.get('nonspecific', [])] == [list(x) for x in f['observed']]
    if f['clause'] == 'digest-spans' and case['kind'] == 'e2e':
        n = len(case['s'])
        return 'non-specific' not in case['rules'] and f.get('sites') == list(range(n + 1)) and \
            [list(x) for x in f.get('nonspecific', [])] == [list(x) for x in f['observed']]
    return False


CLASSIFIERS = {'D10': _d10}
