"""C20 — modification dictionaries, annotation copies and equality reconstruct / distinguish the same peptide.

Space (a)+(c): the C01 shape space (several modifications per slot, multipliers) at deviation <= 3; on every state:
dictionary round trips, create_annotation(**dict), copy independence (deep mutation), strip, multi-path construction in
every order of the set slots, and every single-field perturbation for the equality clause."""
import copy as _copy
import itertools

from mc import lib, pmodel, space
from checks import c01

PROPERTY = 'C20'
RULE = ('deviation-bounded product space (<=3 of 12 slots, several modifications per slot, multipliers 1-3) on the peptides '
        'K, PEK (quick) and MKPEMK (thorough); per state: 5 reconstruction clauses, all orders of add_* calls over the set '
        'slots (<=6 orders), deep-mutation independence of copy() in both directions, and every single-field perturbation '
        '(value, multiplier, drop, duplicate, move, interval bound, flag, charge, adducts, residue, label, rule target) '
        'for the equality clause; value layer: every ordered pair of 25 modification texts x 7 slot kinds x multipliers; '
        'non-trivial = at least one slot set')
ASSUMPTIONS = ['perturbations are generated on the abstract peptide and rendered by the independent renderer; each one '
               'changes what the notation denotes', 'order insensitivity is required inside one slot only']


def modlists(level):
    base = [[['Oxidation', 1]], [['15.995', 2]], [['Oxidation', 1], ['15.995', 1]], [['Phospho', 1], ['Phospho', 1], ['1', 3]],
            [['Formula:[13C2][12C-2]H2N', 1], ['Oxidation', 2]]]
    if level <= 2:
        base = base + [[['Glycan:Hex', 12], ['1.5', 10]]]       # multipliers with two digits
    return base if level <= 2 else base[:3]


AXES = ['labile', 'static', 'isotope', 'unknown', 'nterm', 'r0', 'rmid', 'rlast', 'iv', 'cterm', 'charge']


def values_at(axis, level, n):
    if axis in ('labile', 'unknown', 'nterm', 'cterm', 'r0', 'rmid', 'rlast'):
        return modlists(level)
    if axis == 'static':
        return [[{'mods': [['Carbamidomethyl', 1]], 'targets': ['K']}],
                [{'mods': [['Oxidation', 1]], 'targets': ['M']}, {'mods': [['1.5', 1]], 'targets': ['K', 'N-Term']}]]
    if axis == 'isotope':
        return [['13C'], ['13C', '15N']]
    if axis == 'iv':
        spans = [(0, n)] if n == 1 else [(0, 2), (1, n)]
        out = []
        for a, b in spans:
            out.append([[a, b, False, [['1.5', 1]]]])
            out.append([[a, b, True, None]])
            out.append([[a, b, True, [['Oxidation', 2], ['1.5', 1]]]])
            out.append([[a, b, False, [['Oxidation', 1], ['Oxidation', 2]]]])     # one value, two multipliers
        if n >= 3:
            out.append([[0, 1, False, [['1.5', 1]]], [1, n, True, [['Oxidation', 1]]]])
        return out
    if axis == 'charge':
        return [[2, None, None], [-1, None, None], [2, None, '+2Na+'], [1, None, '+Na+']]
    raise KeyError(axis)


def describe(tier):
    return {'bases': ['K', 'PEK'] + (['MKPEMK'] if tier == 'thorough' else []), 'deviation_bound': 3, 'axes': AXES}


def axes_for(n):
    ax = list(AXES)
    if n < 3:
        ax.remove('rmid')
    if n < 2:
        ax.remove('rlast')
    return ax


def shards(tier):
    out = []
    for seq in describe(tier)['bases'] + [c01.LONG_BASE]:     # the long base (two-digit positions) at deviation <= 2
        for sh in space.dev_shards(axes_for(len(seq)), 3 if seq != c01.LONG_BASE else 2):
            sh['seq'] = seq
            out.append(sh)
    out += [{'kind': 'values', 'first': i} for i in range(len(VALUE_TEXTS))]
    return out


# equality is sensitive to the modification value: every ordered pair of these texts, in every slot kind
VALUE_TEXTS = ['-3', '-2', '-1', '0', '1', '2', '-1.0', '-2.0', '1.0', '0.5', '-0.5', '1E3', '1000', '15.995', '15.9949',
               '-15.995', 'Oxidation', 'Acetyl', 'oxidation', 'U:35', 'Formula:C2', 'Formula:C3', '2305843009213693951',
               '2305843009213693952', '-2305843009213693951']
CANONICAL_VALUE_TEXTS = {'-3', '-2', '-1', '0', '1', '2', '-1.0', '-2.0', '1.0', '0.5', '-0.5', '1000', '15.995', '15.9949',
                         '-15.995', 'Oxidation', 'Acetyl', 'U:35', 'Formula:C2'}   # written the way the library writes them
VALUE_SLOTS = ['res', 'nterm', 'cterm', 'labile', 'unknown', 'iv', 'static']


def _value_form(slot, text, mult):
    ml = [[text, mult]]
    if slot == 'res':
        return {'seq': 'PEK', 'res': [[1, ml]]}
    if slot == 'iv':
        return {'seq': 'PEK', 'iv': [[0, 2, False, ml]]}
    if slot == 'static':
        return {'seq': 'PEK', 'static': [{'mods': ml, 'targets': ['K']}]}
    return {'seq': 'PEK', slot: ml}


def gen(shard, tier):
    if shard.get('kind') == 'values':
        for j in range(len(VALUE_TEXTS)):
            yield {'kind': 'values', 'i': shard['first'], 'j': j}, 2, True
        return
    seq = shard['seq']
    n = len(seq)
    for slots in space.dev_states(shard, lambda a, lv: values_at(a, lv, n)):
        yield {'seq': seq, 'slots': slots}, shard['k'], shard['k'] > 0


# ---- perturbations of the abstract peptide ------------------------------------------------------------------------
OTHER_TEXT = {'Oxidation': 'Acetyl', '15.995': '15.996', 'Phospho': 'Oxidation', '1': '2', '1.5': '1.25',
              'Formula:[13C2][12C-2]H2N': 'Formula:[13C2][12C-2]H2', 'Carbamidomethyl': 'Methyl', 'Acetyl': 'Oxidation'}


def perturb_modlist(ms):
    """yield (label, new list) for each single change of one modification list"""
    for i, (t, m) in enumerate(ms):
        yield f'value[{i}]', ms[:i] + [[OTHER_TEXT.get(t, t + 'x'), m]] + ms[i + 1:]
        yield f'mult[{i}]', ms[:i] + [[t, m + 1]] + ms[i + 1:]
        yield f'duplicate[{i}]', ms[:i] + [[t, m], [t, m]] + ms[i + 1:]
        if len(ms) > 1:
            yield f'drop[{i}]', ms[:i] + ms[i + 1:]
            for j in range(len(ms)):  # same length, same distinct elements, different counts
                if ms[j] != ms[i]:
                    yield f'becomes-copy-of[{i}<-{j}]', ms[:i] + [list(ms[j])] + ms[i + 1:]


def perturbations(P):
    n = len(P['seq'])
    for key in ('labile', 'unknown', 'nterm', 'cterm'):
        if P.get(key):
            for lab, new in perturb_modlist(P[key]):
                yield f'{key}.{lab}', dict(P, **{key: new})
            yield f'{key}.removed', {k: v for k, v in P.items() if k != key}
    for ri, (idx, ms) in enumerate(P.get('res', [])):
        for lab, new in perturb_modlist(ms):
            res = [list(x) for x in P['res']]
            res[ri] = [idx, new]
            yield f'res[{idx}].{lab}', dict(P, res=res)
        used = {int(i) for i, _ in P['res']}
        for j in range(n):
            if j not in used:
                res = [list(x) for x in P['res']]
                res[ri] = [j, ms]
                yield f'res[{idx}].moved->{j}', dict(P, res=res)
                break
        yield f'res[{idx}].removed', dict(P, res=[x for k, x in enumerate(P['res']) if k != ri]) if len(P['res']) > 1 \
            else {k: v for k, v in P.items() if k != 'res'}
    for ii, (a, b, amb, ms) in enumerate(P.get('iv') or []):
        others = [x for k, x in enumerate(P['iv']) if k != ii]

        def with_iv(new):
            return dict(P, iv=sorted(others + [new], key=lambda x: x[0]))
        yield f'iv[{ii}].flag', with_iv([a, b, not amb, ms])
        free_lo = max([x[1] for x in others if x[1] <= a], default=0)
        free_hi = min([x[0] for x in others if x[0] >= b], default=n)
        if b - a > 1:
            yield f'iv[{ii}].start+1', with_iv([a + 1, b, amb, ms])
            yield f'iv[{ii}].end-1', with_iv([a, b - 1, amb, ms])
        if a - 1 >= free_lo:
            yield f'iv[{ii}].start-1', with_iv([a - 1, b, amb, ms])
        if b + 1 <= free_hi:
            yield f'iv[{ii}].end+1', with_iv([a, b + 1, amb, ms])
        if ms:
            for lab, new in perturb_modlist(ms):
                yield f'iv[{ii}].{lab}', with_iv([a, b, amb, new])
            yield f'iv[{ii}].mods-removed', with_iv([a, b, True, None]) if not amb else with_iv([a, b, amb, None])
        else:
            yield f'iv[{ii}].mods-added', with_iv([a, b, amb, [['1', 1]]])
    if P.get('charge') is not None:
        yield 'charge+1', dict(P, charge=P['charge'] + 1 if P['charge'] + 1 != 0 else 3)
        yield 'charge.sign', dict(P, charge=-P['charge'])
        if P.get('adducts'):
            yield 'adducts.value', dict(P, adducts='+K+')
            yield 'adducts.removed', {k: v for k, v in P.items() if k != 'adducts'}
        else:
            yield 'adducts.added', dict(P, adducts='+Na+')
            yield 'charge.removed', {k: v for k, v in P.items() if k not in ('charge', 'charge_text')}
    else:
        yield 'charge.added', dict(P, charge=2)
    if P.get('isotope'):
        yield 'isotope.value', dict(P, isotope=['18O'] + P['isotope'][1:])
        yield 'isotope.removed', {k: v for k, v in P.items() if k != 'isotope'}
    else:
        yield 'isotope.added', dict(P, isotope=['15N'])
    if P.get('static'):
        r0 = P['static'][0]
        yield 'static.target', dict(P, static=[dict(r0, targets=['S'])] + P['static'][1:])
        yield 'static.value', dict(P, static=[dict(r0, mods=[[OTHER_TEXT.get(r0['mods'][0][0], 'Acetyl'), 1]])] + P['static'][1:])
        yield 'static.removed', {k: v for k, v in P.items() if k != 'static'}
    seq = P['seq']
    yield 'residue[0]', dict(P, seq=('A' if seq[0] != 'A' else 'G') + seq[1:])
    yield 'residue[-1]', dict(P, seq=seq[:-1] + ('A' if seq[-1] != 'A' else 'G'))


def mods_objs(p, ms):
    return [p.Mod(pmodel.numval(t), m) for t, m in ms]


def build_by_calls(p, P, order):
    """construct the annotation with add_* calls in the given slot order"""
    a = p.create_annotation(P['seq'])
    for key in order:
        if key == 'labile':
            a.add_labile_mods(mods_objs(p, P['labile']))
        elif key == 'unknown':
            a.add_unknown_mods(mods_objs(p, P['unknown']))
        elif key == 'nterm':
            a.add_nterm_mods(mods_objs(p, P['nterm']))
        elif key == 'cterm':
            a.add_cterm_mods(mods_objs(p, P['cterm']))
        elif key == 'static':
            a.add_static_mods([p.Mod(pmodel.static_text(r), 1) for r in P['static']])
        elif key == 'isotope':
            a.add_isotope_mods([p.Mod(i, 1) for i in P['isotope']])
        elif key == 'res':
            for i, ms in P['res']:
                a.add_internal_mod(int(i), mods_objs(p, ms), append=True)
        elif key == 'iv':
            a.add_intervals([p.Interval(x[0], x[1], x[2], mods_objs(p, x[3]) if x[3] else None) for x in P['iv']])
        elif key == 'charge':
            a.add_charge(P['charge'])
            if P.get('adducts'):
                a.add_charge_adducts([p.Mod(P['adducts'], 1)])
    return a


def deep_mutate(a):
    """edit every mutable part reachable from an annotation"""
    for name in ('_isotope_mods', '_static_mods', '_labile_mods', '_unknown_mods', '_nterm_mods', '_cterm_mods',
                 '_charge_adducts'):
        lst = getattr(a, name)
        if lst is not None:
            for m in lst:
                m.val = 'MUTATED'
                m.mult = 99
            lst.append('junk')
    if a._internal_mods is not None:
        for k, lst in a._internal_mods.items():
            for m in lst:
                m.val = 'MUTATED'
                m.mult = 99
            lst.append('junk')
        a._internal_mods[999] = ['junk']
    if a._intervals is not None:
        for iv in a._intervals:
            iv.start = 77
            iv.end = 99
            iv.ambiguous = not iv.ambiguous
            if iv.mods is not None:
                for m in iv.mods:
                    m.val = 'MUTATED'
                iv.mods.append('junk')
        a._intervals.append('junk')
    a._sequence = 'ZZZ'
    a._charge = -42


def check(case, ctx):
    p = lib.pt()
    if case.get('kind') == 'values':
        t1, t2 = VALUE_TEXTS[case['i']], VALUE_TEXTS[case['j']]
        v1, v2 = pmodel.numval(t1), pmodel.numval(t2)
        same = (v1 == v2) if isinstance(v1, str) == isinstance(v2, str) else False
        for slot in VALUE_SLOTS:
            if slot == 'static':
                same_here = t1 == t2      # a rule is kept as written
            else:
                same_here = same
            for m1, m2 in ((1, 1), (2, 2), (1, 2)):
                s1 = pmodel.render(_value_form(slot, t1, m1))
                s2 = pmodel.render(_value_form(slot, t2, m2))
                a1, a2 = lib.call(p.parse, s1), lib.call(p.parse, s2)
                ctx.evals += 2
                if a1[0] != 'ok' or a2[0] != 'ok':
                    ctx.fail('parse-raises', 'annotation', [a1[1], a2[1]], text=[s1, s2])
                    continue
                want = same_here and m1 == m2
                for x, y in ((a1[1], a2[1]), (a2[1], a1[1])):
                    if (x == y) is not want or (x != y) is want:
                        ctx.fail('eq-value-sensitivity', want, x == y, text=[s1, s2], slot=slot)
                        break
            if slot != 'static':
                # the dictionary round trip reproduces each string as written, whichever equal-valued spelling was
                # handled before it in this process (1 / 1.0, -2 / -2.0, 1000 / 1E3)
                for t in (t1, t2, t1):
                    if t in CANONICAL_VALUE_TEXTS:
                        sx = pmodel.render(_value_form(slot, t, 1))
                        st, back = lib.call(lambda: p.add_mods(p.strip_mods(sx), p.get_mods(sx)))
                        ctx.evals += 1
                        if st != 'ok' or back != sx:
                            ctx.fail('add_mods-reproduces-original-string', sx, back, text=sx, after=[t1, t2])
                x, y = p.Mod(v1, 1), p.Mod(v2, 1)
                if (x == y) is not same or (same and hash(x) != hash(y)):
                    ctx.fail('Mod-eq-value-sensitivity', same, x == y, values=[t1, t2])
        ctx.outcome = [t1, t2, same]
        return
    P = c01.build(case['seq'], case['slots'])
    s = pmodel.render(P)
    st, a = lib.call(p.parse, s)
    ctx.evals += 1
    if st != 'ok':
        ctx.fail('parse-raises', 'annotation', a, text=s)
        return
    canon = a.serialize()
    exp = pmodel.expected(P)
    # 1. dictionary round trip through the string API
    st, md = lib.call(p.get_mods, s)
    st2, stripped = lib.call(p.strip_mods, s)
    ctx.evals += 2
    if st != 'ok' or st2 != 'ok':
        ctx.fail('get_mods/strip_mods-raises', None, [md, stripped], text=s)
    else:
        if stripped != P['seq']:
            ctx.fail('strip_mods', P['seq'], stripped, text=s)
        st3, back = lib.call(p.add_mods, stripped, _copy.deepcopy(md))
        ctx.evals += 1
        if st3 != 'ok':
            ctx.fail('add_mods-raises', canon, back, text=s, mods=lib.dump(md))
        else:
            st4, ba = lib.call(p.parse, back)
            if st4 != 'ok' or pmodel.diff(exp, pmodel.observed(ba)) or back != canon:
                ctx.fail('add_mods(strip_mods,get_mods)', canon, back, text=s)
            elif back != s:
                ctx.fail('add_mods-reproduces-original-string', s, back, text=s)
        for append, plus in ((False, False), (True, True)):
            st6, back2 = lib.call(p.add_mods, stripped, _copy.deepcopy(md), append, plus)
            ctx.evals += 1
            want = a.serialize(include_plus=plus)
            if st6 != 'ok' or back2 != want:
                ctx.fail('add_mods-options', want, back2, text=s, append=append, include_plus=plus)
            elif back2 != pmodel.render(P, plus) and not (plus and P.get('static')):   # a rule is kept as written
                # the original string in the spelling with explicit plus signs (independent renderer)
                ctx.fail('add_mods-reproduces-original-string', pmodel.render(P, plus), back2, text=s, include_plus=plus)
        # the caller's dictionary is used twice (and inspected in between): same result, dictionary as before
        md_shared = _copy.deepcopy(md)
        r1 = lib.call(p.add_mods, stripped, md_shared)
        same_between = lib.dump(md_shared) == lib.dump(md)
        r2 = lib.call(p.add_mods, stripped, md_shared, False, True)
        r3 = lib.call(p.add_mods, stripped, md_shared)
        ctx.evals += 3
        if not same_between or lib.dump(md_shared) != lib.dump(md):
            ctx.fail('add_mods-changes-the-dictionary', lib.dump(md), lib.dump(md_shared), text=s)
        elif r1[0] != r3[0] or r1[1] != r3[1] or (st3 == 'ok' and r1[0] == 'ok' and r1[1] != back):
            ctx.fail('add_mods-second-use-of-dictionary', r1[1], r3[1], text=s)
        st5, pm = lib.call(p.pop_mods, s)
        ctx.evals += 1
        if st5 != 'ok' or pm[0] != P['seq'] or lib.dump(pm[1]) != lib.dump(md):
            ctx.fail('pop_mods', [P['seq'], lib.dump(md)], pm if st5 != 'ok' else [pm[0], lib.dump(pm[1])], text=s)
    # 2. create_annotation(**dict())
    st, b = lib.call(lambda: p.create_annotation(**a.dict()))
    ctx.evals += 1
    if st != 'ok':
        ctx.fail('create_annotation(**dict)-raises', canon, b, text=s)
    elif not (b == a) or not (a == b) or (a != b) or pmodel.diff(exp, pmodel.observed(b)) or b.serialize() != canon:
        ctx.fail('create_annotation(**dict)', canon, b.serialize(), text=s)
    # 2b. a copy whose modifications were edited in place (value / multiplier of every Mod object) equals the annotation
    #     rebuilt from its own dictionary and from its own text: equality follows the fields, not the object's past
    e = a.copy()
    nedit = 0
    for lst in [e.labile_mods, e.unknown_mods, e.nterm_mods, e.cterm_mods] + list((e.internal_mods or {}).values()) + \
            [iv.mods for iv in (e.intervals or [])]:
        for m in (lst or []):
            m.mult = m.mult + 1
            if isinstance(m.val, (int, float)):
                m.val = m.val + 5
            nedit += 1
    if nedit:
        st, e2 = lib.call(lambda: p.create_annotation(**e.dict()))
        st3, e3 = lib.call(lambda: p.parse(e.serialize()))
        ctx.evals += 2
        if st != 'ok' or not (e == e2) or not (e2 == e) or (e != e2):
            ctx.fail('eq-after-in-place-edit', e.serialize(), e2.serialize() if st == 'ok' else e2, text=s,
                     rebuilt_from='dict')
        if st3 != 'ok' or not (e == e3) or not (e3 == e):
            ctx.fail('eq-after-in-place-edit', e.serialize(), e3.serialize() if st3 == 'ok' else e3, text=s,
                     rebuilt_from='text')
        if e == a:
            ctx.fail('eq-after-in-place-edit', 'edited copy differs from its source', 'equal', text=s)
    # 3. copies: equal and independent in both directions
    c = a.copy()
    if not (c == a) or pmodel.observed(c) != pmodel.observed(a):
        ctx.fail('copy-equal', canon, c.serialize(), text=s)
    snap = lib.jkey(lib.dump(a))
    deep_mutate(c)
    if lib.jkey(lib.dump(a)) != snap:
        ctx.fail('copy-independent', 'source unchanged after mutating the copy', 'source changed', text=s)
        return
    a2 = p.parse(s)
    c2 = a2.copy()
    snap2 = lib.jkey(lib.dump(c2))
    deep_mutate(a2)
    if lib.jkey(lib.dump(c2)) != snap2:
        ctx.fail('copy-independent', 'copy unchanged after mutating the source', None, text=s)
    d1 = a.dict()
    snap = lib.jkey(lib.dump(a))
    for v in d1.values():
        if isinstance(v, list):
            v.append('junk')
        elif isinstance(v, dict):
            v[998] = 'junk'
    if lib.jkey(lib.dump(a)) != snap:
        ctx.fail('dict-independent', 'source unchanged after mutating dict()', None, text=s)
    # 4. strip removes everything and nothing else
    st, sa = lib.call(a.strip)
    if st != 'ok' or pmodel.diff(pmodel.expected({'seq': P['seq']}), pmodel.observed(sa)):
        ctx.fail('strip', P['seq'], sa.serialize() if st == 'ok' else sa, text=s)
    a3 = p.parse(s)
    a3.strip(inplace=True)
    if pmodel.diff(pmodel.expected({'seq': P['seq']}), pmodel.observed(a3)):
        ctx.fail('strip-inplace', P['seq'], a3.serialize(), text=s)
    # 5. multi-path construction: add_* calls in every order of the set slots
    keys = [k for k in ('labile', 'static', 'isotope', 'unknown', 'nterm', 'res', 'iv', 'cterm', 'charge')
            if P.get(k) is not None and P.get(k) != []]
    orders = list(itertools.permutations(keys)) if len(keys) <= 3 else [tuple(keys), tuple(reversed(keys))]
    for order in orders:
        st, b = lib.call(build_by_calls, p, P, order)
        ctx.evals += 1
        if st != 'ok':
            ctx.fail('build-by-calls-raises', canon, b, text=s, order=list(order))
            continue
        if not (b == a) or not (a == b) or b.serialize() != canon or pmodel.diff(exp, pmodel.observed(b)):
            ctx.fail('build-by-calls', canon, b.serialize(), text=s, order=list(order))
    # 6. equality: reflexive, symmetric, order-insensitive inside a slot, sensitive to every other difference
    if not (a == a) or (a != a):
        ctx.fail('eq-reflexive', True, False, text=s)
    R = _copy.deepcopy(P)
    changed = False
    for key in ('labile', 'unknown', 'nterm', 'cterm'):
        if R.get(key) and len(R[key]) > 1:
            R[key] = R[key][::-1]
            changed = True
    if R.get('res'):
        R['res'] = [[i, ms[::-1]] for i, ms in R['res']][::-1]
        changed = True
    if R.get('iv') and len(R['iv']) > 0:
        R['iv'] = [[x[0], x[1], x[2], x[3][::-1] if x[3] else x[3]] for x in R['iv']]
        changed = changed or any(x[3] and len(x[3]) > 1 for x in R['iv'])
    if changed:
        sr = pmodel.render(R)
        st, ra = lib.call(p.parse, sr)
        if st != 'ok' or not (ra == a) or not (a == ra) or (ra != a):
            ctx.fail('eq-order-insensitive', True, False, text=[s, sr])
    npert = 0
    for label, Q in perturbations(P):
        sq = pmodel.render(Q)
        if sq == s:
            continue
        st, qa = lib.call(p.parse, sq)
        ctx.evals += 1
        if st != 'ok':
            continue
        npert += 1
        if (qa == a) or (a == qa) or not (qa != a) or not (a != qa):
            ctx.fail('eq-sensitive', 'unequal', 'equal', text=[s, sq], perturbation=label)
    ctx.sub_states = npert
    ctx.sub_nontrivial = npert
    ctx.outcome = canon


CLASSIFIERS = {}
