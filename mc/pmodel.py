"""Abstract peptide (plain JSON-able dict) + independent ProForma 2.0 renderer + expected parse result.

Imports nothing from peptacular.  A modification is [text, mult]; text is what is written inside the brackets
(numeric texts are stored without an explicit plus; the renderer adds it on request).

P = {'seq': 'PEK',
     'labile': [mod..], 'static': [{'mods': [mod..], 'targets': ['K','N-Term']}..], 'isotope': ['13C'..],
     'unknown': [mod..], 'nterm': [mod..], 'cterm': [mod..], 'res': [[idx, [mod..]]..],
     'iv': [[start, end, ambiguous, [mod..] or None]..], 'charge': int|None, 'charge_text': '+3'|None,
     'adducts': '+2Na+,+H+'|None, 'order': 'canonical'|'permuted'}
Missing keys mean "absent".
"""
import re

_INT = re.compile(r'^[+-]?\d+$')
_FLOAT = re.compile(r'^[+-]?(\d+\.\d*|\.\d+|\d+)([eE][+-]?\d+)?$')


def numval(text):
    """What a modification text denotes: an int, a float, or a name (str).  Own spec, not the library's."""
    if _INT.match(text):
        return int(text)
    if _FLOAT.match(text):
        return float(text)
    return text


def is_pos_number(text):
    v = numval(text)
    return not isinstance(v, str) and v > 0


def rmod(m, plus=False, br='[]'):
    text, mult = m[0], m[1]
    if plus and is_pos_number(text) and not text.startswith('+'):
        text = '+' + text
    s = br[0] + text + br[1]
    if mult > 1:
        s += f'^{mult}'
    return s


def rmods(ms, plus=False, br='[]'):
    return ''.join(rmod(m, plus, br) for m in ms)


def static_text(rule, plus=False):
    return rmods(rule['mods'], plus) + '@' + ','.join(rule['targets'])


def render(P, plus=False):
    groups = []
    if P.get('labile'):
        groups.append(('labile', rmods(P['labile'], plus, '{}')))
    if P.get('static'):
        groups.append(('static', ''.join('<' + static_text(r, plus) + '>' for r in P['static'])))
    if P.get('isotope'):
        groups.append(('isotope', ''.join('<' + i + '>' for i in P['isotope'])))
    if P.get('unknown'):
        groups.append(('unknown', rmods(P['unknown'], plus) + '?'))
    if P.get('order') == 'permuted':
        # any order of the global / labile / unknown groups is accepted by the documented grammar;
        # the N-terminal group stays last because it binds to the first residue
        groups = groups[::-1]
    s = ''.join(g for _, g in groups)
    if P.get('nterm'):
        s += rmods(P['nterm'], plus) + '-'
    seq = P['seq']
    res = {int(i): ms for i, ms in P.get('res', [])}
    iv = P.get('iv') or []
    for i, aa in enumerate(seq):
        for (a, b, amb, ms) in iv:
            if b == i:
                s += ')' + (rmods(ms, plus) if ms else '')
        for (a, b, amb, ms) in iv:
            if a == i:
                s += '(' + ('?' if amb else '')
        s += aa
        if i in res:
            s += rmods(res[i], plus)
    for (a, b, amb, ms) in iv:
        if b == len(seq):
            s += ')' + (rmods(ms, plus) if ms else '')
    if P.get('cterm'):
        s += '-' + rmods(P['cterm'], plus)
    if P.get('charge') is not None:
        s += '/' + (P.get('charge_text') or str(P['charge']))
        if P.get('adducts'):
            s += '[' + P['adducts'] + ']'
    return s


def render_multi(chains, links, plus=False):
    s = render(chains[0], plus)
    for P, link in zip(chains[1:], links):
        s += ('//' if link else '+') + render(P, plus)
    return s


def _em(ms):
    return sorted(([repr(numval(m[0])), m[1]] for m in ms), key=repr) if ms else None


def expected(P, plus=False):
    """Fields the notation denotes (mods per slot as sorted [repr(value), mult] lists)."""
    e = {'sequence': P['seq'],
         'labile': _em(P.get('labile')),
         'static': sorted([repr(static_text(r, plus)), 1] for r in P['static']) if P.get('static') else None,
         'isotope': sorted([repr(numval(i)), 1] for i in P['isotope']) if P.get('isotope') else None,
         'unknown': _em(P.get('unknown')),
         'nterm': _em(P.get('nterm')),
         'cterm': _em(P.get('cterm')),
         'internal': {str(int(i)): _em(ms) for i, ms in P.get('res', [])} or None,
         'intervals': sorted([a, b, bool(amb), _em(ms)] for a, b, amb, ms in P['iv']) if P.get('iv') else None,
         'charge': P.get('charge'),
         'adducts': [[repr(P['adducts']), 1]] if P.get('adducts') else None}
    return e


def observed(a):
    """Same shape, read off the public fields of a library annotation (duck-typed)."""
    def om(ms):
        if ms is None:
            return None
        return sorted(([repr(m.val), m.mult] for m in ms), key=repr)
    internal = None
    if a.internal_mods is not None:
        internal = {str(k): om(v) for k, v in a.internal_mods.items()} or None
    iv = None
    if a.intervals is not None:
        iv = sorted([i.start, i.end, bool(i.ambiguous), om(i.mods)] for i in a.intervals) or None  # [] == no intervals
    return {'sequence': a.sequence, 'labile': om(a.labile_mods), 'static': om(a.static_mods),
            'isotope': om(a.isotope_mods), 'unknown': om(a.unknown_mods), 'nterm': om(a.nterm_mods),
            'cterm': om(a.cterm_mods), 'internal': internal, 'intervals': iv, 'charge': a.charge,
            'adducts': om(a.charge_adducts)}


def diff(exp, obs):
    return {k: [exp[k], obs.get(k)] for k in exp if exp[k] != obs.get(k)}


def expand_static(P):
    """The explicit per-residue form of a peptide with global static rules (own expansion, order: own mods first)."""
    Q = {k: v for k, v in P.items() if k != 'static'}
    if not P.get('static'):
        return Q
    seq = P['seq']
    res = {int(i): list(ms) for i, ms in P.get('res', [])}
    nterm = list(P.get('nterm') or [])
    cterm = list(P.get('cterm') or [])
    for rule in P['static']:
        for t in rule['targets']:
            if t == 'N-Term':
                nterm += [list(m) for m in rule['mods']]
            elif t == 'C-Term':
                cterm += [list(m) for m in rule['mods']]
            else:
                for i, aa in enumerate(seq):
                    if aa == t:
                        res.setdefault(i, [])
                        res[i] = res[i] + [list(m) for m in rule['mods']]
    if res:
        Q['res'] = [[i, res[i]] for i in sorted(res)]
    if nterm:
        Q['nterm'] = nterm
    if cterm:
        Q['cterm'] = cterm
    return Q


def observed_explicit(a, rules):
    """observed() of a library annotation with any static rules it still carries expanded by the harness (the rule
    texts must be among `rules`, the rules of the abstract peptide)."""
    o = observed(a)
    if not o['static']:
        return o, None
    by_text = {}
    for r in rules or []:
        by_text[repr(static_text(r, False))] = r
        by_text[repr(static_text(r, True))] = r
    P = {'seq': o['sequence'], 'static': []}
    for text, _mult in o['static']:
        if text not in by_text:
            return o, f'unexpected static rule {text}'
        P['static'].append(by_text[text])
    Q = expand_static(P)
    add_res = {int(i): _em(ms) for i, ms in Q.get('res', [])}
    internal = dict(o['internal'] or {})
    for i, ms in add_res.items():
        internal[str(i)] = sorted((internal.get(str(i)) or []) + ms, key=repr)
    o = dict(o)
    o['internal'] = internal or None
    if Q.get('nterm'):
        o['nterm'] = sorted((o['nterm'] or []) + _em(Q['nterm']), key=repr)
    if Q.get('cterm'):
        o['cterm'] = sorted((o['cterm'] or []) + _em(Q['cterm']), key=repr)
    o['static'] = None
    return o, None
