"""Modification catalogue: spellings with hand-written truth.  Imports nothing from peptacular.

Each entry: text -> {'comp': {...} | None, 'shift': float | None, 'kind': ...}
  comp  : elemental composition the spelling denotes (mass = sum over the frozen NIST table)
  shift : plain mass shift (no composition)
"""
from . import refdata

OX = {'O': 1}
ACETYL = {'C': 2, 'H': 2, 'O': 1}
PHOSPHO = {'H': 1, 'O': 3, 'P': 1}
CAM = {'C': 2, 'H': 3, 'N': 1, 'O': 1}
METHYL = {'C': 1, 'H': 2}
HEX = {'C': 6, 'H': 10, 'O': 5}
HEXNAC = {'C': 8, 'H': 13, 'N': 1, 'O': 5}
FUC = {'C': 6, 'H': 10, 'O': 4}
NEUAC = {'C': 11, 'H': 17, 'N': 1, 'O': 8}


def _sum(*pairs):
    out = {}
    for comp, n in pairs:
        for k, v in comp.items():
            out[k] = out.get(k, 0) + v * n
    return {k: v for k, v in out.items() if v}


# name / accession spellings with composition truth (typed from Unimod / PSI-MOD / XLMOD records)
NAMED = {
    'Oxidation': OX, 'U:Oxidation': OX, 'UNIMOD:Oxidation': OX, 'UNIMOD:35': OX, 'U:35': OX, 'unimod:35': OX,
    'u:35': OX,
    'Acetyl': ACETYL, 'UNIMOD:1': ACETYL, 'U:Acetyl': ACETYL,
    'Phospho': PHOSPHO, 'UNIMOD:21': PHOSPHO, 'U:Phospho': PHOSPHO,
    'Carbamidomethyl': CAM, 'UNIMOD:4': CAM,
    'Methyl': METHYL, 'UNIMOD:34': METHYL,
    'Deamidated': {'H': -1, 'N': -1, 'O': 1}, 'UNIMOD:7': {'H': -1, 'N': -1, 'O': 1},
    'Label:13C(6)': {'C': -6, '13C': 6}, 'UNIMOD:188': {'C': -6, '13C': 6},
    'Met->Hse': {'C': -1, 'H': -2, 'S': -1, 'O': 1},
    'Xlink:DTSSP[88]': {'C': 3, 'H': 4, 'O': 1, 'S': 1},
    'L-methionine sulfoxide': OX, 'M:L-methionine sulfoxide': OX, 'MOD:00719': OX, 'M:00719': OX,
    'PSI-MOD:00719': OX, 'mod:00719': OX,
    'O-phospho-L-serine': PHOSPHO, 'MOD:00046': PHOSPHO,
    'X:DSS': {'C': 8, 'H': 10, 'O': 2}, 'XLMOD:02001': {'C': 8, 'H': 10, 'O': 2}, 'X:02001': {'C': 8, 'H': 10, 'O': 2},
    'XLMOD:DSS': {'C': 8, 'H': 10, 'O': 2},
}

FORMULA = {
    'Formula:C2H2O': ACETYL,
    'Formula:[13C2][12C-2]H2N': {'13C': 2, '12C': -2, 'H': 2, 'N': 1},
    'Formula:C-1H-2': {'C': -1, 'H': -2},
    'Formula:[13C6]C-6': {'13C': 6, 'C': -6},
    'Formula:HO3P': PHOSPHO,
    'Formula:[2H2]H-2': {'2H': 2, 'H': -2},
    'Formula:C2H3NO': CAM,
    # the same element / isotope written in two parts of one formula accumulates
    'Formula:C2H3[15N1]H2O1': {'C': 2, 'H': 5, '15N': 1, 'O': 1},
    'Formula:[13C2]H2[13C1]': {'13C': 3, 'H': 2},
    'Formula:C2[13C1]C3H2': {'C': 5, '13C': 1, 'H': 2},
    'Formula:C2H4OS': {'C': 2, 'H': 4, 'O': 1, 'S': 1},
}

GLYCAN = {
    'Glycan:Hex': HEX, 'Glycan:HexNAc': HEXNAC, 'Glycan:Hex2': _sum((HEX, 2)),
    'Glycan:HexNAc2Hex3': _sum((HEXNAC, 2), (HEX, 3)), 'Glycan:Hex3HexNAc2': _sum((HEXNAC, 2), (HEX, 3)),
    'Glycan:HexNAc2Hex3Fuc': _sum((HEXNAC, 2), (HEX, 3), (FUC, 1)),
    'Glycan:HexNAc1Hex1NeuAc1': _sum((HEXNAC, 1), (HEX, 1), (NEUAC, 1)),
}

# plain mass shifts (text -> value); texts are stored without explicit plus
SHIFTS = {'15.995': 15.995, '-18.0106': -18.0106, '1': 1.0, '-2': -2.0, '1.5': 1.5, '100': 100.0, '0.5': 0.5,
          '79.966331': 79.966331, '1.0': 1.0, '42.010565': 42.010565,
          '0.00005': 0.00005, '-0.00002': -0.00002, '5e-05': 5e-05}   # str() of these floats uses exponent notation
PREFIXED_SHIFTS = {'U:+15.995': 15.995, 'M:-18.0106': -18.0106, 'Obs:+15.99': 15.99, 'Obs:15.99': 15.99,
                   'UNIMOD:+1.5': 1.5, 'X:+100.5': 100.5, 'MOD:+14.01565': 14.01565, 'obs:-17.0265': -17.0265,
                   'R:+3.25': 3.25, 'G:+162.0528': 162.0528}

# decorations: text -> (base text it is equivalent to in mass)
DECORATED = {
    'Oxidation|INFO:note': 'Oxidation', 'INFO:note|Oxidation': 'Oxidation', 'Oxidation#g1': 'Oxidation',
    'Phospho#g1(0.9)': 'Phospho', '15.995#g1': '15.995', 'Oxidation|U:35': 'Oxidation',
    'INFO:a|INFO:b|Formula:C2H2O': 'Formula:C2H2O', 'Obs:+15.99|INFO:x': 'Obs:+15.99',
    'Oxidation|Obs:+15.99': 'Oxidation', 'Formula:C2H2O|INFO:x': 'Formula:C2H2O',
    # a mass shift FIRST, then a name of the same mass (to 4e-7): the mass side reads the number, the composition side may read
    # the name; alternatives that contradict each other in mass are outside every property (DESIGN section 10)
    # an unsigned integer with a localisation tag is a mass shift, not an accession (D29)
    '10#g1': '10', '35#g1(0.5)': '35', '1#g2': '1',
    'Obs:+42.010565|Acetyl': 'Acetyl', '+42.010565|Acetyl': 'Acetyl', '42.010565|U:1': 'Acetyl',
}
ZERO_MASS = ['#g1']      # bare localisation tag: no mass of its own
NO_MASS = ['INFO:note']  # parses, but has no mass (mass() raises)


def comp_of(text):
    """composition or None"""
    if text in DECORATED:
        return comp_of(DECORATED[text])
    for tab in (NAMED, FORMULA, GLYCAN):
        if text in tab:
            return dict(tab[text])
    return None


def shift_of(text):
    if text in DECORATED:
        return shift_of(DECORATED[text])
    if text in SHIFTS:
        return SHIFTS[text]
    if text in PREFIXED_SHIFTS:
        return PREFIXED_SHIFTS[text]
    try:  # any plain decimal number is a mass shift
        return float(text)
    except ValueError:
        return None


def mass_of(text, mono=True):
    """Reference mass of a catalogue spelling (None if it has none)."""
    if text in ZERO_MASS:
        return 0.0
    c = comp_of(text)
    if c is not None:
        return refdata.comp_mass(c, mono)
    return shift_of(text)


def all_texts():
    out = []
    for tab in (NAMED, FORMULA, GLYCAN, SHIFTS, PREFIXED_SHIFTS, DECORATED):
        out.extend(tab.keys())
    return out + ZERO_MASS + NO_MASS
