"""./check CNN --tier quick|thorough [--jobs N]     |     ./check --replay <file> [--json]"""
import argparse
import json
import os
import sys
import time

from . import engine, evidence, findings, lib

ROOT = os.path.dirname(os.path.dirname(os.path.abspath(__file__)))


def do_replay(path, as_json):
    with open(path) as f:
        art = json.load(f)
    mod = engine.load(art['property'])
    if art.get('history_shards') is not None:
        ctx = engine.replay_history(mod, art['tier'], art)
    else:
        ctx = engine.run_case(mod, art['case'])
    if as_json:
        print('REPLAY-JSON ' + json.dumps(ctx.fails, default=repr))
    else:
        print(f"replay property={art['property']} case={lib.jkey(art['case'])[:400]}")
        for f in ctx.fails:
            print('  FAIL', json.dumps(f, default=repr)[:1200])
        print('still failing' if ctx.fails else 'passes')
    return 1 if ctx.fails else 0


def main(argv=None):
    ap = argparse.ArgumentParser()
    ap.add_argument('prop', nargs='?')
    ap.add_argument('--tier', default=os.environ.get('VERIF_TIER', 'quick'), choices=['quick', 'thorough'])
    ap.add_argument('--jobs', type=int, default=int(os.environ.get('VERIF_JOBS', '16')))
    ap.add_argument('--replay')
    ap.add_argument('--json', action='store_true')
    a = ap.parse_args(argv)
    if a.replay:
        return do_replay(a.replay, a.json)
    prop = a.prop.upper()
    seed = int(os.environ.get('VERIF_SEED', '0') or 0)
    t0 = time.time()
    mod, agg = engine.explore(prop, a.tier, seed, a.jobs)
    entries = [e for e in findings.load_entries(prop) if e['status'] == 'open']
    known, unknown = agg['known'], agg['fails']

    if os.environ.get('VERIF_DUMP_FAILS'):
        with open(os.environ['VERIF_DUMP_FAILS'], 'w') as f:
            json.dump(unknown, f, default=repr)
    exit_code = 0
    violations = []
    # order unknown failing cases: lowest level, then shortest case  -> first printed is the simplest
    unknown.sort(key=lambda fc: (fc['level'], len(lib.jkey(fc['case']))))
    seen_clauses = set()
    attempts = 0
    vdir = os.path.join(os.environ.get('VERIF_VIOLATIONS_DIR') or os.path.join(ROOT, 'violations'), prop)
    for fc in unknown:
        clause = fc['failures'][0]['clause']
        if clause in seen_clauses and len(violations) >= 3:
            continue
        if len(violations) >= 8 or attempts >= 12:
            break       # every attempt costs up to four fresh-process replays; the rest stays counted as unknown failures
        attempts += 1
        seen_clauses.add(clause)
        os.makedirs(vdir, exist_ok=True)
        path = os.path.join(vdir, lib.sha(fc['case']) + '.json')
        with open(path, 'w') as f:
            json.dump({'property': prop, 'case': fc['case'], 'level': fc['level'], 'failures': fc['failures'],
                       'replay': f'./check --replay {os.path.relpath(path, ROOT)}'}, f, indent=1, default=repr)
        r1 = engine.replay_in_fresh_process(path)
        r2 = engine.replay_in_fresh_process(path)
        if r1 == [] and r2 == []:
            # passes on its own in a fresh process: replay it after everything its worker had explored before it
            with open(path, 'w') as f:
                json.dump({'property': prop, 'tier': a.tier, 'case': fc['case'], 'top_case': fc['top_case'],
                           'shard': fc['shard'], 'history_shards': fc['history_shards'], 'level': fc['level'],
                           'failures': fc['failures'],
                           'note': 'fails only after the earlier states of its worker: replay re-runs them first',
                           'replay': f'./check --replay {os.path.relpath(path, ROOT)}'}, f, indent=1, default=repr)
            r1 = engine.replay_in_fresh_process(path)
            r2 = engine.replay_in_fresh_process(path)
            if r1 and r1 == r2:
                print(f'  (depends on process history: {len(fc["history_shards"])} earlier shards are replayed first)')
        if not r1 or r1 != r2:
            agg['harness_errors'].append(f'non-reproducing failure {path}: first={r1} second={r2}')
            continue
        violations.append(path)
        print(f'VIOLATION property={prop} replay={path}')
        print('  case=' + lib.jkey(fc['case'])[:600])

        def _is_known(f):
            for e in entries:
                fn = getattr(mod, 'CLASSIFIERS', {}).get(e['classifier'])
                try:
                    if fn is not None and fn(fc['case'], f):
                        return 1
                except Exception:
                    pass
            return 0
        for f in sorted(fc['failures'], key=_is_known)[:3]:  # failures no open finding explains come first
            print('  ' + json.dumps(f, default=repr)[:900])
    if violations:
        exit_code = 1
    for e in entries:
        if e['id'] in known:
            print(f"KNOWN-FINDING: property={prop} {e['id']} {e['what']} "
                  f"[{known[e['id']]} states, e.g. {lib.jkey(agg['known_examples'][e['id']][0])[:200]}]")
    if agg['harness_errors']:
        for h in agg['harness_errors'][:5]:
            print('HARNESS-ERROR ' + h[:1500])
        if exit_code == 0:
            exit_code = 3

    levels = {str(k): v for k, v in sorted(agg['levels'].items())}
    cov = {
        'states': agg['states'],
        'transitions': agg['transitions'],
        'traces_validated_against_impl': agg['states'],
        'samples': agg['samples'][:12],
        'evaluations': agg['evals'],
        'distinct_nontrivial': agg['nontrivial'],
        'rule': mod.RULE,
        'exhaustive': not agg['harness_errors'] and not agg.get('stopped_early'),
        'states_per_level': levels,
        'distinct_states': agg['distinct'],
        'distinct_observed_outcomes': len(agg['outcomes']),
        'shards': agg['shards'],
        'failing_states_total': agg['nfails'],
        'failing_states_attributed_to_known_findings': dict(known),
        'failing_states_unknown': agg['nunknown'],
        'bounds': mod.describe(a.tier) if hasattr(mod, 'describe') else {},
    }
    doc = {
        'property_id': prop, 'tier': a.tier, 'seed': seed, 'level': 'model_checking', 'coverage': cov,
        'assumptions': list(getattr(mod, 'ASSUMPTIONS', [])),
        'wall_s': round(time.time() - t0, 2), 'violations': len(violations),
    }
    path = evidence.write(prop, doc)
    err = evidence.validate(path)
    if err:
        print('HARNESS-ERROR evidence does not validate: ' + err)
        exit_code = exit_code or 3
    print(f"{prop} tier={a.tier} seed={seed} states={agg['states']} transitions={agg['transitions']} "
          f"impl_calls={agg['evals']} nontrivial={agg['nontrivial']} outcomes={len(agg['outcomes'])} "
          f"levels={levels} failing={agg['nfails']} known={dict(known)} "
          f"unknown={agg['nunknown']} wall={doc['wall_s']}s exit={exit_code}")
    return exit_code


if __name__ == '__main__':
    sys.exit(main())
