"""Frozen reference data (NIST isotope table frozen in refdata_nist.json, CODATA particle masses).
Imports nothing from peptacular; never reads /repo at run time."""
import json
import os

_here = os.path.dirname(os.path.abspath(__file__))
with open(os.path.join(_here, 'refdata_nist.json')) as _f:
    _T = json.load(_f)['elements']

PROTON = 1.00727646688       # CODATA 2014, u (1.007276466879)
ELECTRON = 0.00054857990946  # CODATA 2014
NEUTRON = 1.00866491597      # 1.00866491588 (2014) / ...595 (2018): agreed to 1e-9 with every edition since 2010
WATER = {'H': 2, 'O': 1}

ISO = {}      # '13C' -> mass ; also 'D','T','2H','3H'
MONO = {}     # 'C' -> mass of most abundant isotope
AVG = {}      # 'C' -> sum(mass*abundance)
ISOTOPES = {}  # 'C' -> [(mass_number, mass, abundance)] with abundance > 0
MONO_A = {}   # 'C' -> mass number of the most abundant isotope

for _sym, _e in _T.items():
    isos = [tuple(x) for x in _e['isotopes']]
    best = max(isos, key=lambda x: x[2])
    MONO[_sym] = best[1]
    MONO_A[_sym] = best[0]
    avg = sum(m * ab for _, m, ab in isos)
    AVG[_sym] = avg if avg != 0 else best[1]
    ISOTOPES[_sym] = [(a, m, ab) for a, m, ab in isos if ab > 0]
    for a, m, ab in isos:
        ISO[f'{a}{_sym}'] = m
ISO['D'] = ISO['2H']
ISO['T'] = ISO['3H']
PARTICLES = {'e': ELECTRON, 'p': PROTON, 'n': NEUTRON}


def atom_mass(key, mono=True):
    """Mass of one 'atom' key of a composition: element, explicit isotope ('13C','D'), or particle."""
    if key in PARTICLES:
        return PARTICLES[key]
    if key in ISO:
        return ISO[key]
    if key in MONO:
        return MONO[key] if mono else AVG[key]
    raise KeyError(key)


def comp_mass(comp, mono=True):
    return sum(atom_mass(k, mono) * v for k, v in comp.items())


AA = {
    'G': {'C': 2, 'H': 3, 'N': 1, 'O': 1}, 'A': {'C': 3, 'H': 5, 'N': 1, 'O': 1},
    'S': {'C': 3, 'H': 5, 'N': 1, 'O': 2}, 'P': {'C': 5, 'H': 7, 'N': 1, 'O': 1},
    'V': {'C': 5, 'H': 9, 'N': 1, 'O': 1}, 'T': {'C': 4, 'H': 7, 'N': 1, 'O': 2},
    'C': {'C': 3, 'H': 5, 'N': 1, 'O': 1, 'S': 1}, 'I': {'C': 6, 'H': 11, 'N': 1, 'O': 1},
    'L': {'C': 6, 'H': 11, 'N': 1, 'O': 1}, 'J': {'C': 6, 'H': 11, 'N': 1, 'O': 1},
    'N': {'C': 4, 'H': 6, 'N': 2, 'O': 2}, 'D': {'C': 4, 'H': 5, 'N': 1, 'O': 3},
    'Q': {'C': 5, 'H': 8, 'N': 2, 'O': 2}, 'K': {'C': 6, 'H': 12, 'N': 2, 'O': 1},
    'E': {'C': 5, 'H': 7, 'N': 1, 'O': 3}, 'M': {'C': 5, 'H': 9, 'N': 1, 'O': 1, 'S': 1},
    'H': {'C': 6, 'H': 7, 'N': 3, 'O': 1}, 'F': {'C': 9, 'H': 9, 'N': 1, 'O': 1},
    'R': {'C': 6, 'H': 12, 'N': 4, 'O': 1}, 'Y': {'C': 9, 'H': 9, 'N': 1, 'O': 2},
    'W': {'C': 11, 'H': 10, 'N': 2, 'O': 1}, 'U': {'C': 3, 'H': 5, 'N': 1, 'O': 1, 'Se': 1},
    'O': {'C': 12, 'H': 19, 'N': 3, 'O': 2}, 'X': {},
}
MASS_LETTERS = ''.join(sorted(AA))       # 24 letters with a defined mass (22 + X + J)
ALL_LETTERS = MASS_LETTERS + 'BZ'         # the 26 accepted letters

# adduct ions: symbol -> (element, charge)
ADDUCT_IONS = {'H+': ('H', 1), 'Na+': ('Na', 1), 'K+': ('K', 1), 'Li+': ('Li', 1), 'Mg2+': ('Mg', 2),
               'Ca2+': ('Ca', 2), 'Cl-': ('Cl', -1), 'I-': ('I', -1), 'e-': (None, -1)}


def ion_mass(ion, mono=True):
    """Mass of one adduct ion = atom mass minus q electrons (an electron for 'e-')."""
    el, q = ADDUCT_IONS[ion]
    if el is None:
        return ELECTRON
    if el == 'H' and q == 1:
        return PROTON
    return atom_mass(el, mono) - q * ELECTRON
