import json
import os
import subprocess

ROOT = os.path.dirname(os.path.dirname(os.path.abspath(__file__)))
SCHEMA = '/root/.vp/EVIDENCE.schema.json'


def write(prop, doc):
    path = os.path.join(os.environ.get('VERIF_EVIDENCE_DIR') or os.path.join(ROOT, 'evidence'), f'{prop}.json')
    os.makedirs(os.path.dirname(path), exist_ok=True)
    tmp = path + '.tmp'
    with open(tmp, 'w') as f:
        json.dump(doc, f, indent=1, sort_keys=False, default=repr)
    os.replace(tmp, path)
    return path


def validate(path):
    """Schema check with the tooling venv's jsonschema (not importable from /venv). Returns error string or None."""
    if not os.path.exists(SCHEMA):
        return None
    code = ("import json,sys,jsonschema;"
            "jsonschema.validate(json.load(open(sys.argv[1])), json.load(open(sys.argv[2])))")
    try:
        p = subprocess.run(['python3-vt', '-c', code, path, SCHEMA], capture_output=True, text=True, timeout=60)
    except Exception as e:  # tooling venv missing: do not fail the check for that
        return None
    if p.returncode != 0:
        return p.stderr[-800:]
    return None
