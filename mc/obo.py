"""Independent minimal OBO reader for the bundled vocabularies (imports nothing from peptacular).
Reads the files of the working tree under test (they are part of the implementation's data, property C10 is about
consistency between spellings and between table columns)."""
import os
import re

from . import lib

DATA = os.path.join(lib.REPO_SRC, 'peptacular', 'data')


def terms(fname):
    out = []
    cur = None
    with open(os.path.join(DATA, fname), encoding='utf-8') as f:
        for line in f:
            line = line.rstrip('\n')
            if line.startswith('['):
                if cur is not None:
                    out.append(cur)
                cur = {'_type': line.strip(), '_lines': []} if line.strip() == '[Term]' else None
                continue
            if cur is None or not line.strip():
                continue
            if ':' in line:
                k, v = line.split(':', 1)
                cur['_lines'].append((k.strip(), v.strip()))
                if k in ('id', 'name', 'is_obsolete') and k not in cur:
                    cur[k] = v.strip()
    if cur is not None:
        out.append(cur)
    return [t for t in out if 'id' in t]


_Q = re.compile(r'"([^"]*)"')


def _xref(t, key):
    for k, v in t['_lines']:
        if k == 'xref' and v.startswith(key + ' ') or k == 'xref' and v.startswith(key + ':'):
            m = _Q.search(v)
            if m:
                return m.group(1)
    return None


def _prop(t, key):
    for k, v in t['_lines']:
        if k == 'property_value' and (v.startswith(key + ' ') or v.startswith(key + ':')):
            m = _Q.search(v)
            if m:
                return m.group(1)
    return None


def unimod():
    out = []
    for t in terms('unimod.obo'):
        if not t['id'].startswith('UNIMOD:') or t['id'] == 'UNIMOD:0':
            continue
        comp = _xref(t, 'delta_composition')
        out.append({'acc': t['id'].split(':', 1)[1], 'name': t.get('name'), 'mono': _f(_xref(t, 'delta_mono_mass')),
                    'avg': _f(_xref(t, 'delta_avge_mass')), 'comp': unimod_comp(comp) if comp else None,
                    'comp_text': comp})
    return out


def _f(x):
    try:
        return float(x)
    except (TypeError, ValueError):
        return None


_UC = re.compile(r'^(\d*)([A-Za-z]+)(?:\((-?\d+)\))?$')


def unimod_comp(text):
    """'H(2) C(2) O' / 'C(-6) 13C(6)' -> composition; None if it contains non-elemental bricks (Hex, HexNAc, ...)"""
    comp = {}
    for tok in text.split():
        m = _UC.match(tok)
        if not m:
            return None
        iso, el, n = m.group(1), m.group(2), m.group(3)
        n = int(n) if n is not None else 1
        key = f'{iso}{el}' if iso else el
        comp[key] = comp.get(key, 0) + n
    return {k: v for k, v in comp.items() if v}


def psimod():
    out = []
    for t in terms('psi-mod.obo'):
        if not t['id'].startswith('MOD:'):
            continue
        out.append({'acc': t['id'].split(':', 1)[1], 'name': t.get('name'), 'obsolete': t.get('is_obsolete') == 'true',
                    'mono': _f(_xref(t, 'DiffMono')), 'avg': _f(_xref(t, 'DiffAvg')),
                    'formula': _xref(t, 'DiffFormula')})
    return out


def xlmod():
    out = []
    for t in terms('xlmod.obo'):
        if not t['id'].startswith('XLMOD:'):
            continue
        out.append({'acc': t['id'].split(':', 1)[1], 'name': t.get('name'), 'obsolete': t.get('is_obsolete') == 'true',
                    'mono': _f(_prop(t, 'monoIsotopicMass')), 'formula': _prop(t, 'bridgeFormula')})
    return out


def monosaccharides():
    out = []
    for t in terms('monosaccharides_updated.obo'):
        syn = []
        for k, v in t['_lines']:
            if k == 'synonym':
                m = _Q.search(v)
                if m:
                    syn.append(m.group(1))
        out.append({'acc': t['id'], 'name': t.get('name'), 'synonyms': syn,
                    'mono': _f(_prop(t, 'has_monoisotopic_mass')), 'avg': _f(_prop(t, 'has_average_mass')),
                    'formula': _prop(t, 'has_chemical_formula')})
    return out


_CF = re.compile(r'([A-Z][a-z]?)(-?\d*)')


def simple_formula(text):
    """'C6H10O5' -> composition (plain condensed formulas only)."""
    comp = {}
    pos = 0
    for m in _CF.finditer(text):
        if m.start() != pos:
            return None
        pos = m.end()
        comp[m.group(1)] = comp.get(m.group(1), 0) + (int(m.group(2)) if m.group(2) else 1)
    return comp if pos == len(text) else None
