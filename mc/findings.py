"""Known-findings matching.  known_findings.json is committed and never written at run time.

An entry: {"id": "D16", "property": "C16", "status": "open"|"fixed", "classifier": "D16", "what": "...",
           "commit": "<sha, for fixed>"}.
Only *open* entries suppress anything, and only for failures that their classifier (a predicate on the case and
the observed failure, implemented in the check module) accepts.  Fixed entries suppress nothing.
"""
import json
import os

PATH = os.path.join(os.path.dirname(os.path.dirname(os.path.abspath(__file__))), 'known_findings.json')


def load_entries(prop):
    with open(PATH) as f:
        data = json.load(f)
    return [e for e in data['findings'] if e['property'] == prop]


def attribute(mod, open_entries, fc):
    """Return the set of open finding ids that explain *every* failure recorded on this failing state, or None.

    A failing state is attributed to known findings only if each of its failures is accepted by the classifier
    of some open entry; otherwise the whole state is unknown (a VIOLATION)."""
    classifiers = getattr(mod, 'CLASSIFIERS', {})
    ids = set()
    for f in fc['failures']:
        hit = None
        for e in open_entries:
            fn = classifiers.get(e['classifier'])
            try:
                if fn is not None and fn(fc['case'], f):
                    hit = e['id']
                    break
            except Exception:
                pass
        if hit is None:
            return None
        ids.add(hit)
    return ids or None
