"""Regenerates MANIFEST.json from the table below (python -m mc.manifest_gen)."""
import json
import os

ROOT = os.path.dirname(os.path.dirname(os.path.abspath(__file__)))

CHECKS = {
    'C16': ('every target over {A,K} (len<=8 quick / 9 thorough) x every query len 1..4 x ignore_mods, tagged-'
            'modification variants (one or two modifications per site), an interval layer, coverage over all lists of <=2 '
            'queries (strings, annotation objects, mixed), compared state by state with a brute-force '
            'offset scan; targets with several tagged residues up to length 12; a history of queries on one parsed target; '
            'order-insensitive containment incl. two-tag sites', 'DESIGN.md section 4 / C16'),
}
CHECKS['C01'] = ('deviation-bounded product space (<=3 quick / <=4 thorough simultaneous notation features out of 12 slots, '
                 'tiered spelling alphabets from a 90-entry catalogue) over abstract peptides rendered by an independent '
                 'ProForma writer; all ordered pairs/triples of 10 chains x link words; parse fields, re-parse equality '
                 'and re-serialisation fixpoint checked on every state for both plus spellings and both include_plus '
                 'values; history clauses on parse results (editing one modification object of a result changes exactly that one; '
                 'parsing again after every object of an earlier result was edited)', 'DESIGN.md section 4 / C01')
CHECKS['C06'] = ('three exhaustive layers: cleavage sites for every protein string (len<=5 quick / 6 thorough, 9 letters) x 19 '
                 'named proteases + 10 user regexes against hand-written predicates / a stdlib-re scan; every site subset '
                 'of {0..n} (n<=7 / 9) x mc 0..4 x semi x min/max for all span builders against a set comprehension; '
                 'end-to-end digest / digest_from_config / sequential_digest for every protein (len<=4 / 5) x 1-3 rules '
                 'x options x 5 return types', 'DESIGN.md section 4 / C06')
CHECKS['C09'] = ('every string of <=4 (quick) / <=5 (thorough) tokens over a 28-token notation alphabet, every single-'
                 'character mutation (delete / insert any token / swap / duplicate) of every valid string of the C01 '
                 'level<=1 space, token pumping up to 8 repeats, and the deferred-validation corpus (14 unresolvable '
                 'values x 8 slots x mass/comp/fragment/... calls); outcome must be annotation or ValueError, accepted '
                 'strings must serialize, is_sequence_valid must agree, watchdog for hangs', 'DESIGN.md section 4 / C09')
CHECKS['C10'] = ('complete enumeration of the bundled vocabularies (1522 Unimod, 1978 PSI-MOD, 1101 XLMOD, 27 '
                 'monosaccharide entries, read by an independent OBO reader) x every prefix/name/accession spelling x '
                 '{mod_mass mono, avg, mod_comp, mass of K[spelling]}; tabulated mass vs frozen-table mass of the '
                 'tabulated composition; enumerated Formula:/Glycan: forms, prefixed shifts and decorations',
                 'DESIGN.md section 4 / C10')
CHECKS['C17'] = ('every pair of sorted m/z lists (with repetitions) of length 0..3 (quick) / 0..4 (thorough) over a dyadic '
                 '6-value grid x {th,ppm} x 5 tolerances each x {all,closest,largest} x every intensity assignment, '
                 '(incl. zero) against a quadratic brute-force matcher; fragment-match layer over every ordered selection of <=3 of 6 '
                 'real fragments x <=3 of 6-8 peaks (duplicate m/z, zero intensity) (order independence, intensity share, coverage); '
                 'long layer: pairs of arithmetic progressions of length 0..30 x 10 tolerances x 3 modes',
                 'DESIGN.md section 4 / C17')
CHECKS['C13'] = ('every residue string of length 1..3 (quick) / 1..4 (thorough) over {P,E,K} x pre-existing modifications x 16 '
                 'internal rule sets x 16-20 terminal rule pairs x max_mods 0..4 x 3 modes x 2 return types; static '
                 'builder against an own rule application, variable builder (mode skip) against the exhaustive subset '
                 'enumeration (every form exactly once), weak clauses for the other modes and overlapping rule sets; rule values '
                 'as texts, Mod objects, numbers (int then float) and mixtures; a 10-residue string',
                 'DESIGN.md section 4 / C13')
CHECKS['C02'] = ('deviation-bounded product space (<=3 quick / <=4 thorough of 17 axes: 9 modification slots with '
                 'catalogue modifications of known mass and multipliers 1-3; charge argument, charge/adducts in the '
                 'string, adduct argument over 9 ions x counts {-2,-1,1,2,3}, ion type, isotope, loss, precision, average '
                 'mode) against an independent mass calculator over a frozen NIST table; all 1-/2-letter residue strings; '
                 'every Unimod entry; every state is asked after a priming history of composition / multiplier / rounded requests', 'DESIGN.md section 4 / C02')
CHECKS['C03'] = ('differential exploration of the two library calculators: deviation-bounded product space (<=3 / <=4 of 17 '
                 'axes: modification slots incl. isotope labels, static rules, labile and unknown mods; ion type over all 16 '
                 'fragment types + n, charge -3..4, isotope, adducts, average mode, use_isotope_on_mods); mass == '
                 'chem_mass(comp_mass)+delta and == chem_mass(comp(estimate_delta)); anchored to the independent reference '
                 'at low levels; every Unimod and every self-consistent PSI-MOD entry; composition and mass asked in turn of one parsed '
                 'object', 'DESIGN.md section 4 / C03')
CHECKS['C05'] = ('every residue string of length 2..3 (quick) / 2..4 (thorough) over the 22 unambiguous-mass letters, plus '
                 'modified peptides (<=2 numeric/formula modifications on residues/termini, in place or as a global rule), through '
                 'fragment() and the Fragmenter class; every ion of all 6 terminal, 9 '
                 'internal and the immonium series at charges 1..4, monoisotopic and average, against independently '
                 'computed backbone-cleavage chemistry from the frozen NIST table; b/y complementarity; the same through '
                 'mass(ion_type=...); long layer: every cyclic window of length 5..15 of fixed 22-letter words, plain and modified; '
                 'the same Fragmenter asked twice', 'DESIGN.md section 4 / C05')
CHECKS['C04'] = ('every peptide of length 1..4 (quick) / 1..5 (thorough) over {S,K,G,M} x {16 single ion types, 4 classes, all}; '
                 'all 120 ion-type pairs; deviation<=2 option grid (charge lists, isotope lists, 8 loss configurations, '
                 'max_losses, average mode, precision); modified peptides (N-/C-term, residue, static, isotope-label); '
                 'thorough: all 65535 ion-type subsets on 2 peptides; own ion enumeration (each key once), per-ion '
                 'agreement with mass()/mz() on the ion sequence, sequence/number/internal bookkeeping, 5 projected return '
                 'types, Fragmenter twice', 'DESIGN.md section 4 / C04')
CHECKS['C12'] = ('every residue string of length 1..3 (quick) / 1..4 (thorough) over {K,S,M,G} x 38 static rule sets (1-3 targets '
                 'among residues / N-Term / C-Term, 1-2 modifications, pairs of rules) x pre-existing modifications: mass '
                 '(mono/avg, ions p,b,y,c,z), composition, fragments, modified-residue counts of the rule form vs the '
                 'explicit form written by the harness, condensation = explicit form; isotope labels {13C,15N,18O,17O,34S,'
                 'D,T,2H} and 9 pairs: label shift = atom count x NIST isotope difference, with/without '
                 'use_isotope_on_mods; one parsed object asked count / condense / mass / condense in turn', 'DESIGN.md section 4 / C12')
CHECKS['C11'] = ('deviation-bounded space of abstract peptides (tagged residue modifications, terminal, labile, static, isotope, '
                 'unknown, charge, interval layouts) on all {A,K} strings of length<=4/5 and distinct-residue strings of '
                 'length<=5/6; on every state every reverse(+-swap), shift in [-2n,2n], shuffle seed 0..7, sort, slice '
                 '0<=i<=j<=n and slice-of-slice, split, through method (inplace False/True) and string function; model '
                 'operations on the abstract peptide + inverse/identity laws + mass and unit-multiset invariants; a 12-residue base; '
                 'results of objects that answered queries first',
                 'DESIGN.md section 4 / C11')
CHECKS['C20'] = ('deviation-bounded space (<=3 of 11 slots, several modifications per slot) of abstract peptides; per state: '
                 'add_mods(strip_mods,get_mods), pop_mods, create_annotation(**dict()), copy()/dict() independence under deep '
                 'mutation in both directions, strip, construction through add_* calls in every order of the set slots, '
                 'and every single-field perturbation of the abstract peptide (value, multiplier, drop, duplicate, count '
                 'change, move, interval bound/flag, charge, adducts, label, rule, residue) for ==/!= in both directions; every '
                 'ordered pair of 25 modification values x 7 slot kinds; a 12-residue base; one dictionary used twice',
                 'DESIGN.md section 4 / C20')
CHECKS['C19'] = ('deviation-bounded space (<=3 of 10 slots) of abstract peptides on 5 (quick) / 7 (thorough) residue strings incl. '
                 'repeated residues with different modifications; permutations / combinations / combinations_with_'
                 'replacement / product for every size 1..n, None, n+1, through function and method, compared element by '
                 'element with itertools over the (residue, own modifications) units wrapped in the unchanged prefix and '
                 'suffix; a length-6 base with every size (6^6 tuples: exact count + fixed subset compared); one parsed object used '
                 'repeatedly', 'DESIGN.md section 4 / C19')
CHECKS['C18'] = ('deviation-bounded space (<=3 of 11 slots incl. unknown-position, interval, labile, static with residue and '
                 'N-Term/C-Term targets, isotope labels, charge/adducts) x include_plus x precision 3..8: output parses, '
                 'same residues, only numeric modifications, neutral mass preserved within (#shifts) x 0.5e-precision, '
                 'shifts exactly on the residues/termini modified in the explicit form, unmodified input unchanged; one parsed object '
                 'rewritten repeatedly and after mass/composition/fragment queries',
                 'DESIGN.md section 4 / C18')
CHECKS['C07'] = ('deviation-bounded space (<=3 of 10 slots) of modified proteins (14 quick / 41 thorough residue strings over '
                 '{K,R,P,D,A}) x 6 protease rules x mc 0..3 x semi x 5 return types + the 4 semi-/non-enzymatic generators: '
                 'every peptide = slice of the abstract protein (residue mods re-indexed, terminal mods only with their '
                 'terminus, intervals, static/isotope carried), string == annotation, found at its offset, mass '
                 'conservation of the zero-missed-cleavage peptides; full product: every protein of length 1..4 (quick) / 1..6 '
                 '(thorough) over {K,R,P,D,A}, plain and with every residue tagged by its position; histories digest-edit-digest '
                 'and queries-then-digest on one object', 'DESIGN.md section 4 / C07')
CHECKS['C14'] = ('every composition with <=7 (quick) / <=12 (thorough, 18563) atoms over C,H,N,O,S,P compared cluster by cluster with '
                 'the exact multinomial expansion from the frozen isotope table at resolutions 5 and 6; identity clauses '
                 '(sorted, max/sum normalisation, lightest peak = monoisotopic mass incl. e/p/n, mean = average mass, '
                 'neutron view = mass view binned, merge adds) on a count grid up to 200 atoms incl. fractional counts, '
                 'labelled elements, Se/Cl/Br/Fe x 7 option axes at deviation<=2; the averagine wrapper on 3 masses x the same '
                 'option space and every triple of options; float-typed whole counts; the same request after the caller edited the '
                 'previous result', 'DESIGN.md section 4 / C14')
CHECKS['C15'] = ('compositions of <=3 (quick) / <=4 (thorough) terms over 18 confusable keys (C/Ce/e, H/He, N/n/Na, p/P, D, T, 13C, '
                 '2H, 15N, ...) x 11 counts (negative, zero, fractional, 500) x 3 separators x Hill order: write/parse round '
                 'trip and mass against the frozen table; every element and two isotopes of the table; additivity over all '
                 'ordered pairs of ~60 written formulas; glycans: all names/synonyms, ordered pairs/triples of 12 prefix-'
                 'confusable names x counts with an own all-tokenizations enumerator', 'DESIGN.md section 4 / C15')
CHECKS['C08'] = ('operation-sequence exploration on live shared objects: ~117 call labels (public functions and non-inplace '
                 'annotation methods taking an annotation/dict/list) x 3 annotation shapes; every history of length 1 and '
                 'every ordered pair (quick), plus every triple whose first two calls are among 24 argument-touching labels '
                 '(thorough); world rebuilt and prefix replayed per history, no state merging; per node: argument snapshot, '
                 'result == result on a fresh world, global RNG; per history: deep mutation of the last result must not '
                 'reach the arguments or later results; process-wide digest of DBs/constant tables per shard',
                 'DESIGN.md section 4 / C08')
NOT_APPLICABLE = {}


def main():
    for i in range(1, 21):
        pid = f'C{i:02d}'
        if pid not in CHECKS and pid not in NOT_APPLICABLE:
            NOT_APPLICABLE[pid] = ('not claimed yet: the bounded-exhaustive check for this property is planned '
                                   '(DESIGN.md sections 4 and 9) but not built/validated at this commit')
    checks = []
    for pid, (text, ref) in sorted(CHECKS.items()):
        checks.append({
            'property_id': pid,
            'quick_cmd': f'./check {pid} --tier quick',
            'thorough_cmd': f'./check {pid} --tier thorough',
            'evidence_file': f'/verif/evidence/{pid}.json',
            'replay_cmd_template': './check --replay {path}',
            'engine': 'mc',
            'level_claimed': {'category': 'model_checking',
                              'text': 'bounded exhaustive exploration on the real code against a reference model: ' + text,
                              'design_ref': ref},
            'level_note': 'trusted base: the reference model in checks/%s.py and mc/ (pure Python, no peptacular '
                          'import in the models), the stated alphabets/bounds; nothing above the bound is claimed' % pid.lower(),
            'technique': 'explicit-state bounded exhaustive enumeration of inputs/configurations/histories executed on '
                         'the implementation, compared with a reference model on every state',
        })
    m = {
        'version': 1,
        'setup_cmd': '/venv/bin/python -c "import sys; sys.path.insert(0, \'/repo/src\'); import peptacular, regex; '
                     'print(peptacular.__file__)"',
        'hooks': {'guard': 'PEPTACULAR_VERIF', 'enable': 'no source hooks are needed: every property is observed at the '
                  'public API of the working tree in /repo/src (imported directly, nothing is built)',
                  'baseline_off_cmd': 'cd /repo && /venv/bin/python -m pytest -ra -q -p no:cacheprovider --timeout=900 '
                                      '--continue-on-collection-errors',
                  'source_commits': [], 'add_only': True},
        'engines': [{'name': 'mc', 'path': '/verif/mc', 'serves_properties': sorted(CHECKS),
                     'kind_free_text': 'hand-written explicit-state explorer (deviation-bounded product spaces, full '
                                       'language spaces, operation-sequence spaces) over a 16-process pool'}],
        'checks': checks,
        'not_applicable': [{'property_id': k, 'reason': v} for k, v in sorted(NOT_APPLICABLE.items())],
        'notes': 'see DESIGN.md; known_findings.json lists open findings (suppressed only through classifiers) and fixed ones',
    }
    with open(os.path.join(ROOT, 'MANIFEST.json'), 'w') as f:
        json.dump(m, f, indent=1)


if __name__ == '__main__':
    main()
