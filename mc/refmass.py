"""Independent reference mass / composition calculator over abstract peptides (mc/pmodel.py) and the frozen table.
Imports nothing from peptacular."""
from . import refdata, catalogue

# neutral terminal/ion chemistry (DESIGN section 3), as compositions relative to the bare residue sum R
H2O = {'H': 2, 'O': 1}
CO = {'C': 1, 'O': 1}
NH3 = {'N': 1, 'H': 3}
H2 = {'H': 2}


def addc(*pairs):
    out = {}
    for comp, n in pairs:
        for k, v in comp.items():
            out[k] = out.get(k, 0) + v * n
    return {k: v for k, v in out.items() if v != 0}


# singly charged ion = R + OFFSET (composition) + one proton ;  neutral precursor 'p' = R + H2O (+ z protons)
C_OFF = {'a': addc((CO, -1)), 'b': {}, 'c': dict(NH3)}                 # C-terminal side of an N-terminal fragment
N_OFF = {'x': addc((CO, 1), (H2, -1)), 'y': {}, 'z': addc((NH3, -1))}  # N-terminal side of a C-terminal fragment
ION_OFFSET = {
    'b': {}, 'a': C_OFF['a'], 'c': C_OFF['c'],
    'y': dict(H2O), 'x': addc((H2O, 1), (N_OFF['x'], 1)), 'z': addc((H2O, 1), (N_OFF['z'], 1)),
    'i': addc((CO, -1)),
}
for _c in 'abc':
    for _n in 'xyz':
        ION_OFFSET[_c + _n] = addc((C_OFF[_c], 1), (N_OFF[_n], 1))
ALL_ION_TYPES = ['a', 'b', 'c', 'x', 'y', 'z', 'ax', 'ay', 'az', 'bx', 'by', 'bz', 'cx', 'cy', 'cz', 'i']


def residue_mass(seq, mono=True):
    return sum(refdata.comp_mass(refdata.AA[a], mono) for a in seq)


def residue_comp(seq):
    return addc(*[(refdata.AA[a], 1) for a in seq])


def mods_mass(ms, mono=True):
    return sum(catalogue.mass_of(m[0], mono) * m[1] for m in ms)


def all_mod_lists(P, ion='p'):
    """Every (mods, multiplicity) the peptide carries, with static rules expanded."""
    out = []
    for key in ('unknown', 'nterm', 'cterm'):
        if P.get(key):
            out.append((P[key], 1))
    if P.get('labile') and ion == 'p':
        out.append((P['labile'], 1))
    for _i, ms in P.get('res', []):
        out.append((ms, 1))
    for iv in P.get('iv') or []:
        if iv[3]:
            out.append((iv[3], 1))
    for rule in P.get('static') or []:
        n = 0
        for t in rule['targets']:
            n += 1 if t in ('N-Term', 'C-Term') else P['seq'].count(t)
        if n:
            out.append((rule['mods'], n))
    return out


def parse_adducts(text):
    """'+2Na+,-H+' -> [(count, ion)] (own parser for the adduct alphabet of refdata.ADDUCT_IONS)."""
    out = []
    for part in text.split(','):
        sign = -1 if part.startswith('-') else 1
        body = part.lstrip('+-')
        digits = ''
        while body and body[0].isdigit():
            digits += body[0]
            body = body[1:]
        out.append((sign * (int(digits) if digits else 1), body))
    return out


def adducts_mass(text, mono=True):
    return sum(n * refdata.ion_mass(ion, mono) for n, ion in parse_adducts(text))


def ref_mass(P, charge=None, ion='p', mono=True, isotope=0, loss=0.0, adducts=None, precision=None):
    """mass of the (charged) species; charge/adducts default to what is written in P."""
    if charge is None:
        charge = P.get('charge')
    if adducts is None:
        adducts = P.get('adducts')
    z = charge or 0
    m = residue_mass(P['seq'], mono)
    for ms, n in all_mod_lists(P, ion):
        m += mods_mass(ms, mono) * n
    if ion == 'p':
        m += refdata.comp_mass(H2O, mono)
        carriers = z
    elif ion == 'n':
        carriers = z
    else:
        m += refdata.comp_mass(ION_OFFSET[ion], mono)
        carriers = z  # a singly charged fragment carries one proton
    if adducts is not None:
        m += adducts_mass(adducts, mono)
    else:
        m += carriers * refdata.PROTON
    m += isotope * refdata.NEUTRON + loss
    if precision is not None:
        m = round(m, precision)
    return m


def n_mass_terms(P, ion='p'):
    return sum(len(ms) for ms, _ in all_mod_lists(P, ion))
