"""Shared helpers: binding to the implementation under test, tolerant comparison, canonical dumps."""
import hashlib
import json
import os
import sys
import warnings

warnings.simplefilter('ignore')

REPO_SRC = os.environ.get('PEPTACULAR_SRC', '/repo/src')
if REPO_SRC not in sys.path:
    sys.path.insert(0, REPO_SRC)

_pt = None


def pt():
    """The implementation under test, always imported from the current working tree of /repo."""
    global _pt
    if _pt is None:
        import peptacular
        f = os.path.realpath(peptacular.__file__)
        if not f.startswith(os.path.realpath(REPO_SRC) + os.sep):
            raise RuntimeError(f'peptacular imported from {f}, expected under {REPO_SRC}')
        _pt = peptacular
    return _pt


def jkey(obj):
    return json.dumps(obj, sort_keys=True, default=repr, separators=(',', ':'))


def h64(obj):
    return int.from_bytes(hashlib.blake2b(jkey(obj).encode(), digest_size=8).digest(), 'big')


def sha(obj):
    return hashlib.sha1(jkey(obj).encode()).hexdigest()[:16]


def close(a, b, tol):
    try:
        return abs(a - b) <= tol
    except TypeError:
        return False


def exc_name(e):
    return type(e).__name__


def is_value_error(e):
    return isinstance(e, ValueError)


def call(fn, *a, **k):
    """Run fn; return ('ok', value) or ('err', exception)."""
    try:
        return 'ok', fn(*a, **k)
    except Exception as e:  # noqa
        return 'err', e


def dump(obj, depth=0):
    """Type-tagged structural dump of arbitrary library objects (for snapshots / canonical results)."""
    if depth > 12:
        return '<deep>'
    if obj is None or isinstance(obj, (bool, str)):
        return obj
    if isinstance(obj, int):
        return ['i', obj]
    if isinstance(obj, float):
        return ['f', repr(obj)]
    if isinstance(obj, (list, tuple)):
        return [type(obj).__name__, [dump(x, depth + 1) for x in obj]]
    if isinstance(obj, (set, frozenset)):
        return [type(obj).__name__, sorted((dump(x, depth + 1) for x in obj), key=jkey)]
    if isinstance(obj, dict):
        return [type(obj).__name__, [[dump(k, depth + 1), dump(v, depth + 1)] for k, v in obj.items()]]
    import dataclasses as _dc
    if _dc.is_dataclass(obj) and not isinstance(obj, type):
        # declared fields only: cached properties stored in the instance dict are not observable state
        return [type(obj).__name__, [[f.name, dump(getattr(obj, f.name, None), depth + 1)] for f in _dc.fields(obj)]]
    if hasattr(obj, '__next__') or type(obj).__name__ == 'generator':
        return ['generator', '<not consumed>']
    d = getattr(obj, '__dict__', None)
    if d is not None:
        return [type(obj).__name__, [[k, dump(v, depth + 1)] for k, v in sorted(d.items())]]
    slots = getattr(type(obj), '__slots__', None)
    if slots:
        return [type(obj).__name__, [[k, dump(getattr(obj, k, None), depth + 1)] for k in slots]]
    if hasattr(obj, '_fields'):
        return [type(obj).__name__, [dump(x, depth + 1) for x in obj]]
    return [type(obj).__name__, repr(obj)]


def isolated(fn, *args):
    """fn(*args) computed in its OWN forked child of the calling process, so that whatever process-wide state the call
    leaves behind (module-level caches, memos) cannot reach the caller or any later call.  Result must be picklable."""
    import pickle
    r, w = os.pipe()
    pid = os.fork()
    if pid == 0:
        try:
            os.close(r)
            data = pickle.dumps(fn(*args))
            with os.fdopen(w, 'wb') as f:
                f.write(data)
        finally:
            os._exit(0)
    os.close(w)
    with os.fdopen(r, 'rb') as f:
        data = f.read()
    os.waitpid(pid, 0)
    return pickle.loads(data)


def db_digest():
    """Digest of the contents of the bundled modification databases (id, masses, composition of every entry)."""
    p = pt()
    h = 0
    for name in ('UNIMOD_DB', 'PSI_MOD_DB', 'XLMOD_DB', 'MONOSACCHARIDES_DB'):
        db = getattr(p, name, None)
        n = 0
        for e in (db or ()):
            h ^= hash((name, e.id, e.name, e.mono_mass, e.avg_mass, e.composition))
            n += 1
        h ^= hash((name, n))
    return h
