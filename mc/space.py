"""Finite state spaces (DESIGN 2.1).

(a) deviation-bounded product space: axes with a default value; a state sets k <= bound axes to non-default values.
    States are generated in canonical order (axis indices ascending) so that each is generated exactly once; the
    canonical parent of a state is the state with its last axis reset, so every non-root state contributes one
    transition.  Value lists may depend on the level k ("tiers").
(b) full language space: all strings of length <= L over an alphabet, BFS by length.
"""
import itertools


def dev_shards(axes, bound):
    """One shard per (level, axis subset)."""
    m = len(axes)
    out = []
    for k in range(0, bound + 1):
        for subset in itertools.combinations(range(m), k):
            out.append({'k': k, 'axes': [axes[i] for i in subset]})
    return out


def dev_states(shard, values_at):
    """Yield dict axis->value for one (level, subset) shard.  values_at(axis, level) -> list of non-default values."""
    k = shard['k']
    names = shard['axes']
    lists = [values_at(a, k) for a in names]
    for combo in itertools.product(*lists):
        yield dict(zip(names, combo))


def strings(alphabet, lo, hi):
    for n in range(lo, hi + 1):
        for t in itertools.product(alphabet, repeat=n):
            yield t


def prefix_shards(alphabet, length, plen):
    """Partition strings of exactly `length` by their first min(plen,length) symbols (indices)."""
    p = min(plen, length)
    return [list(t) for t in itertools.product(range(len(alphabet)), repeat=p)]
