"""Explorer driver: shards a finite state space over a process pool, runs the real code on every state,
compares with the reference model of the check module, aggregates coverage, triages failures.

A check module (checks/cNN.py) provides
    PROPERTY, RULE, ASSUMPTIONS
    shards(tier)            -> list of JSON-able shard descriptors (a partition of the space)
    gen(shard, tier)        -> yields (case, level, nontrivial[, transitions]); case is JSON-able; BFS order
    check(case, ctx)        -> runs the implementation on that one state; ctx.fail(...) on disagreement
    CLASSIFIERS             -> {finding_id: fn(case, failure) -> bool}  (known-finding matching)
    describe(tier)          -> dict put verbatim into the evidence (alphabets, bounds)
"""
import importlib
import json
import multiprocessing as mp
import os
import random
import signal
import subprocess
import sys
import time
import traceback

from . import lib

CASE_TIMEOUT_S = float(os.environ.get('VERIF_CASE_TIMEOUT', '60'))
MAX_FAILS_PER_SHARD = 40
MAX_SAMPLES_PER_SHARD = 2
MAX_OUTCOMES_PER_SHARD = 20000


class Hang(BaseException):
    """raised by the watchdog; a BaseException so that neither `except Exception` in the library (is_sequence_valid) nor
    the harness's own call wrapper can swallow it and carry on with the next call of a hanging state"""


def _alarm(signum, frame):
    raise Hang()


class Ctx:
    __slots__ = ('fails', 'evals', 'outcome', 'case', 'sub_states', 'sub_nontrivial', 'sub_outcomes', 'sub_levels')

    def __init__(self, case):
        self.fails = []
        self.evals = 0
        self.outcome = None
        self.case = case
        # a case may bundle many sub-states (e.g. all strings with a given prefix); each one is executed on the
        # implementation inside check(); failures then carry subcase=<the single state> for a minimal replay file
        self.sub_states = 0
        self.sub_nontrivial = 0
        self.sub_outcomes = None
        self.sub_levels = None

    def fail(self, clause, expected=None, observed=None, **extra):
        f = {'clause': clause, 'expected': _short(expected), 'observed': _short(observed)}
        for k, v in extra.items():
            f[k] = _short(v)
        self.fails.append(f)

    def ok(self, cond, clause, expected=None, observed=None, **extra):
        if not cond:
            self.fail(clause, expected, observed, **extra)
        return cond


def _short(v):
    if isinstance(v, float):
        return v
    if isinstance(v, (int, str, bool)) or v is None:
        return v if not isinstance(v, str) or len(v) < 2000 else v[:2000] + '…'
    if isinstance(v, BaseException):
        return f'{type(v).__name__}: {str(v)[:300]}'
    try:
        s = json.dumps(v, default=repr)
        if len(s) < 4000:
            return json.loads(s)
        return s[:4000] + '…'
    except Exception:
        return repr(v)[:2000]


def load(prop):
    return importlib.import_module(f'checks.{prop.lower()}')


def run_case(mod, case):
    """Run one state against the implementation with a watchdog.  Returns Ctx."""
    ctx = Ctx(case)
    signal.signal(signal.SIGALRM, _alarm)
    horizon = case.get('_timeout') if isinstance(case, dict) else None
    signal.setitimer(signal.ITIMER_REAL, float(horizon or getattr(mod, 'CASE_TIMEOUT_S', CASE_TIMEOUT_S)))
    try:
        mod.check(case, ctx)
    except Hang:
        ctx.fail('hang', 'terminates within the watchdog horizon', 'watchdog fired')
    except RecursionError as e:
        ctx.fail('harness-or-recursion', None, e)
    except Exception as e:  # an exception escaping check() is a harness error unless the check handles it
        ctx.fail('uncaught', None, e, tb=traceback.format_exc()[-1500:])
    finally:
        signal.setitimer(signal.ITIMER_REAL, 0)
    return ctx


def _global_digest():
    """Cheap digest of process-wide library state (contamination guard, see DESIGN 2.3)."""
    p = lib.pt()
    parts = []
    for name in ('UNIMOD_DB', 'PSI_MOD_DB', 'XLMOD_DB', 'MONOSACCHARIDES_DB', 'RESID_DB', 'GNO_DB'):
        db = getattr(p, name, None) or getattr(getattr(p, 'mods', None), name, None)
        if db is not None:
            d = getattr(db, '__dict__', {})
            parts.append([name, sorted((k, len(v)) for k, v in d.items() if hasattr(v, '__len__'))])
    import peptacular.constants as C
    for k in sorted(vars(C)):
        v = getattr(C, k)
        if isinstance(v, dict):
            parts.append([k, len(v), lib.h64(sorted((repr(a), repr(b)) for a, b in v.items()))])
    return lib.h64(parts)


_worker_state = {}


def _worker_init():
    try:  # a runaway state (endless loop growing a list) must die with MemoryError instead of exhausting the machine
        import resource
        lim = int(os.environ.get('VERIF_WORKER_MEM_GB', '6')) * (1 << 30)
        resource.setrlimit(resource.RLIMIT_AS, (lim, lim))
    except Exception:
        pass
    lib.pt()
    _worker_state['digest'] = _global_digest()
    _worker_state['rnd'] = random.getstate()


def _worker(args):
    prop, tier, shard = args
    mod = load(prop)
    t0 = time.time()
    r = {'shard': shard, 'states': 0, 'transitions': 0, 'evals': 0, 'nontrivial': 0, 'levels': {},
         'fails': [], 'nfails': 0, 'samples': [], 'outcomes': set(), 'distinct': 0, 'capped': None,
         'harness_error': None, 'known': {}, 'known_examples': {}, 'nunknown': 0, 'pid': os.getpid()}
    seen = set()
    from . import findings
    open_entries = [e for e in findings.load_entries(prop) if e['status'] == 'open']
    random.setstate(_worker_state['rnd'])
    try:
        for item in mod.gen(shard, tier):
            case, level, nontrivial = item[0], item[1], item[2]
            trans = item[3] if len(item) > 3 else (1 if level > 0 else 0)
            k = lib.h64(case)
            if k in seen:
                continue
            seen.add(k)
            r['states'] += 1
            r['transitions'] += trans
            r['levels'][level] = r['levels'].get(level, 0) + 1
            if nontrivial:
                r['nontrivial'] += 1
            ctx = run_case(mod, case)
            r['evals'] += ctx.evals
            if ctx.sub_states:
                r['states'] += ctx.sub_states
                r['transitions'] += ctx.sub_states
                r['nontrivial'] += ctx.sub_nontrivial
                r['distinct'] += ctx.sub_states
                if ctx.sub_levels:
                    for lv, n_ in ctx.sub_levels.items():
                        r['levels'][lv] = r['levels'].get(lv, 0) + n_
                if ctx.sub_outcomes:
                    for o in ctx.sub_outcomes:
                        if len(r['outcomes']) < MAX_OUTCOMES_PER_SHARD:
                            r['outcomes'].add(lib.h64(o))
            if ctx.outcome is not None and len(r['outcomes']) < MAX_OUTCOMES_PER_SHARD:
                r['outcomes'].add(lib.h64(ctx.outcome))
            if len(r['samples']) < MAX_SAMPLES_PER_SHARD and (nontrivial or r['states'] == 1):
                r['samples'].append(case)
            if ctx.fails:
                r['nfails'] += 1
                # failures of bundled sub-states are regrouped per sub-state (each gets its own replay file)
                groups = {}
                for f in ctx.fails:
                    sc = f.pop('subcase', None)
                    key = lib.jkey(sc) if sc is not None else ''
                    groups.setdefault(key, (sc if sc is not None else case, []))[1].append(f)
                for key, (c2, fl) in groups.items():
                    fc = {'case': c2, 'level': level, 'failures': fl, 'top_case': case, 'shard': shard}
                    ids = findings.attribute(mod, open_entries, fc)
                    if ids:
                        for i in ids:
                            r['known'][i] = r['known'].get(i, 0) + 1
                            ex = r['known_examples'].setdefault(i, [])
                            if len(ex) < 2:
                                ex.append(c2)
                    else:
                        r['nunknown'] += 1
                        if len(r['fails']) < MAX_FAILS_PER_SHARD:
                            r['fails'].append(fc)
                if (r['nunknown'] >= 4 * MAX_FAILS_PER_SHARD and time.time() - t0 > 120) or \
                        (r['nunknown'] >= 1 and time.time() - t0 > 300):
                    # this shard has long established a violation and the tree is slow on it: hand the result back now
                    # (the run is reported as not exhaustive)
                    r['capped'] = 'shard left after %d unexplained failing states and %.0f s' % (r['nunknown'], time.time() - t0)
                    break
    except Exception as e:
        r['harness_error'] = f'{type(e).__name__}: {e}\n{traceback.format_exc()[-2000:]}'
    r['distinct'] += len(seen)
    if _global_digest() != _worker_state['digest']:
        r['harness_error'] = (r['harness_error'] or '') + f' process-wide library state changed during shard {shard}'
        _worker_state['digest'] = _global_digest()
    r['wall'] = time.time() - t0
    r['outcomes'] = list(r['outcomes'])
    return r


def explore(prop, tier, seed, jobs):
    mod = load(prop)
    shards = list(mod.shards(tier))
    order = list(range(len(shards)))
    random.Random(seed).shuffle(order)
    jobs = max(1, min(jobs, len(shards)))
    agg = {'known': {}, 'known_examples': {}, 'nunknown': 0,
           'states': 0, 'transitions': 0, 'evals': 0, 'nontrivial': 0, 'levels': {}, 'fails': [], 'nfails': 0,
           'samples': [], 'outcomes': set(), 'distinct': 0, 'harness_errors': [], 'shards': len(shards),
           'shard_wall_max': 0.0}
    tasks = [(prop, tier, shards[i]) for i in order]
    lib.pt()        # fail here, not in every respawned worker, if the implementation cannot be imported
    if jobs == 1:
        _worker_init()
        results = map(_worker, tasks)
        pool = None
    else:
        pool = mp.get_context('fork').Pool(jobs, initializer=_worker_init)
        results = pool.imap_unordered(_worker, tasks, chunksize=1)
    t_start = time.time()
    history = {}     # worker pid -> shards it has finished, in order (each worker runs its shards sequentially)
    try:
        for r in results:
            done_before = history.setdefault(r['pid'], [])
            for fc in r['fails']:
                fc['history_shards'] = list(done_before)
            done_before.append(r['shard'])
            for k in ('states', 'transitions', 'evals', 'nontrivial', 'nfails', 'distinct', 'nunknown'):
                agg[k] += r[k]
            for i, n in r['known'].items():
                agg['known'][i] = agg['known'].get(i, 0) + n
                ex = agg['known_examples'].setdefault(i, [])
                if len(ex) < 3:
                    ex.extend(r['known_examples'][i][:1])
            for lv, n in r['levels'].items():
                agg['levels'][lv] = agg['levels'].get(lv, 0) + n
            agg['fails'].extend(r['fails'])
            if len(agg['samples']) < 12:
                agg['samples'].extend(r['samples'][:1] if len(agg['samples']) > 4 else r['samples'])
            agg['outcomes'].update(r['outcomes'])
            agg['shard_wall_max'] = max(agg['shard_wall_max'], r['wall'])
            if r['harness_error']:
                agg['harness_errors'].append(r['harness_error'])
            if r.get('capped'):
                agg['stopped_early'] = True
            if agg['nunknown'] >= int(os.environ.get('VERIF_STOP_AFTER_UNKNOWN', '300')) or \
                    (agg['nunknown'] > 0 and time.time() - t_start > float(os.environ.get('VERIF_STOP_AFTER_S', '600'))):
                # the verdict is already a violation: do not spend the rest of the budget on a tree that fails (and may
                # be slow) everywhere; the evidence of such a run says exhaustive: false
                agg['stopped_early'] = True
                if pool is not None:
                    pool.terminate()
                break
            if os.environ.get('VERIF_FAIL_FAST') and agg['nunknown'] > 0:
                # mutation-analysis mode only (tools/mutation_run.py): stop at the first unexplained failure
                agg['stopped_early'] = True
                if pool is not None:
                    pool.terminate()
                break
    finally:
        if pool is not None:
            pool.close()
            pool.join()
    return mod, agg


def replay_history(mod, tier, art):
    """Re-run, in this (fresh) process, every state the worker had explored before the failing one - the shards it had
    finished, then the failing state's own shard up to that state - and return the failing state's context.  A failure
    that only shows after earlier states is a dependence on process-wide state left behind by those states."""
    list(mod.shards(tier))     # as in explore(): some checks compute reference answers here, in the still pristine process
    _worker_init()
    target = lib.h64(art['top_case'])
    for sh in art['history_shards']:
        for item in mod.gen(sh, tier):
            run_case(mod, item[0])
    for item in mod.gen(art['shard'], tier):
        if lib.h64(item[0]) == target:
            return run_case(mod, item[0])
        run_case(mod, item[0])
    return run_case(mod, art['top_case'])


def replay_in_fresh_process(path):
    """Re-execute a recorded case in a fresh interpreter; returns the list of failing clauses (or None on crash)."""
    p = subprocess.run([sys.executable, '-m', 'mc.main', '--replay', path, '--json'],
                       capture_output=True, text=True, cwd=os.path.dirname(os.path.dirname(os.path.abspath(__file__))))
    for line in p.stdout.splitlines():
        if line.startswith('REPLAY-JSON '):
            return json.loads(line[len('REPLAY-JSON '):])
    return None
